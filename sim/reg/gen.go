package reg

import (
	"encoding/json"
	"fmt"
	"sort"
	"strings"

	"cuelabs.dev/go/oci/ociregistry"
	"verifsim/core"
)

// GenConfig is the swarm configuration of the operation generator for one run.
type GenConfig struct {
	Repos    []string // valid repository names in play
	BadRepos []string // invalid names (only ever used for writes)
	Tags     []string
	MaxBlob  int
	Weights  [NumKinds]int
	BadPush  bool // pushes whose declared digest / size disagree with the content
	// Recommit: an upload that has been committed is now and then committed once more
	// with the same digest (a client that did not see the reply retries its closing
	// request): it is refused, or it succeeds and the blob is there - also when the blob
	// was deleted in between.
	Recommit bool
	// MalformedDigest: some of those pushes declare something that is no digest at all
	// (direct use of a registry only: such a thing cannot be put into a request)
	MalformedDigest bool
	ContentFault    bool // content readers that fail mid-stream
	EmptyBlobMT     bool // PushBlob with an empty media type (only Digest and Size are documented as used)
	AltAlgo         bool // sha512 / sha384 digests
	HTTPSafe        bool // only calls HTTP carries faithfully (declared size = length, non-empty media types)
	Stops           bool // listing consumers that decline early
	Uploads         bool
	SmallReads      bool
	// Motifs: now and then a short scripted history with seeded parameters is woven
	// into the random one (nested references with members deleted before tagging,
	// references filled in after tagging ...): multi-step shapes a uniform draw of
	// single operations reaches too rarely. The model judges every operation as usual.
	Motifs bool
}

// Gen generates operations, biased by the current model state.
type Gen struct {
	C         *core.Choices
	M         *Model
	Cfg       GenConfig
	nextH     int
	queue     []*Op // operations of a motif still to be issued
	live      []int // upload handles that may still be used
	serial    int
	pastMan   []pastManifest
	closed    map[int]bool // HTTPSafe: handles whose writer was closed and not yet resumed
	committed []int        // Recommit: handles that were committed (the last few)
}

type pastManifest struct {
	data []byte
	mt   string
}

func NewGen(c *core.Choices, m *Model, cfg GenConfig) *Gen {
	return &Gen{C: c, M: m, Cfg: cfg}
}

// DefaultWeights: a workload mix that keeps the registry populated.
func DefaultWeights() [NumKinds]int {
	var w [NumKinds]int
	w[GetBlob], w[GetBlobRange], w[GetManifest], w[GetTag] = 6, 6, 5, 5
	w[ResolveBlob], w[ResolveManifest], w[ResolveTag] = 3, 3, 4
	w[PushBlob], w[MountBlob], w[PushManifest] = 12, 4, 12
	w[DeleteBlob], w[DeleteManifest], w[DeleteTag] = 3, 3, 3
	w[Repositories], w[Tags], w[Referrers] = 3, 4, 3
	w[UpStart], w[UpResume], w[UpWrite], w[UpClose], w[UpCommit], w[UpCancel], w[UpSize] = 3, 2, 5, 1, 3, 1, 1
	return w
}

func (g *Gen) repo() string { return g.Cfg.Repos[g.C.Int("repo", len(g.Cfg.Repos))] }

func (g *Gen) writeRepo() string {
	if len(g.Cfg.BadRepos) > 0 && g.C.Bool("badrepo", 1, 25) {
		return g.Cfg.BadRepos[g.C.Int("badrepo.i", len(g.Cfg.BadRepos))]
	}
	return g.repo()
}

func (g *Gen) tag() string { return g.Cfg.Tags[g.C.Int("tag", len(g.Cfg.Tags))] }

func sortedDigests[V any](m map[ociregistry.Digest]V) []ociregistry.Digest {
	ds := make([]ociregistry.Digest, 0, len(m))
	for d := range m {
		ds = append(ds, d)
	}
	sort.Slice(ds, func(i, j int) bool { return ds[i] < ds[j] })
	return ds
}

func (g *Gen) randomDigest() ociregistry.Digest {
	return Sha256(g.C.Bytes("nodigest", 8))
}

// blobDigest picks a blob digest: mostly one present in repo, sometimes one present
// elsewhere, sometimes a manifest digest, sometimes unknown.
func (g *Gen) blobDigest(repo string) ociregistry.Digest {
	switch g.C.Weighted("blobdigest", []int{70, 12, 6, 12}) {
	case 0:
		if r := g.M.Repos[repo]; r != nil && len(r.Blobs) > 0 {
			ds := sortedDigests(r.Blobs)
			return ds[g.C.Int("blob.i", len(ds))]
		}
	case 1:
		var all []ociregistry.Digest
		for _, n := range g.Cfg.Repos {
			if r := g.M.Repos[n]; r != nil {
				all = append(all, sortedDigests(r.Blobs)...)
			}
		}
		if len(all) > 0 {
			return all[g.C.Int("blob.any", len(all))]
		}
	case 2:
		if r := g.M.Repos[repo]; r != nil && len(r.Manifests) > 0 {
			ds := sortedDigests(r.Manifests)
			return ds[g.C.Int("blob.man", len(ds))]
		}
	}
	return g.randomDigest()
}

func (g *Gen) manifestDigest(repo string) ociregistry.Digest {
	switch g.C.Weighted("mandigest", []int{75, 10, 15}) {
	case 0:
		if r := g.M.Repos[repo]; r != nil && len(r.Manifests) > 0 {
			ds := sortedDigests(r.Manifests)
			return ds[g.C.Int("man.i", len(ds))]
		}
	case 1:
		if r := g.M.Repos[repo]; r != nil && len(r.Blobs) > 0 {
			ds := sortedDigests(r.Blobs)
			return ds[g.C.Int("man.blob", len(ds))]
		}
	}
	return g.randomDigest()
}

// blobLen: boundary-biased lengths.
func (g *Gen) blobLen() int {
	max := g.Cfg.MaxBlob
	if max <= 0 {
		max = 64
	}
	switch g.C.Weighted("len", []int{10, 10, 10, 50, 20}) {
	case 0:
		return 0
	case 1:
		return 1
	case 2:
		return 2
	case 3:
		return g.C.Range("len.small", 3, 40)
	}
	return g.C.Range("len.big", 41, max)
}

var opaqueTypes = []string{
	"application/vnd.docker.distribution.manifest.v2+json",
	"application/x-verif.opaque",
	"text/plain",
	// legal spellings that a layer in between might be tempted to tidy up
	"Application/X-Verif.Mixed-CASE",
	"application/x-verif.param; v=1;Q=\"a b\"",
}

type refPick struct {
	Digest ociregistry.Digest
	Size   int64
}

func (g *Gen) pickBlobRef(repo string) jsonDesc {
	r := g.M.Repos[repo]
	if r != nil && len(r.Blobs) > 0 && !g.C.Bool("ref.missing", 1, 8) {
		ds := sortedDigests(r.Blobs)
		d := ds[g.C.Int("ref.blob", len(ds))]
		sz := int64(len(r.Blobs[d]))
		if sz == 0 {
			sz = 0
			if d != Sha256(nil) {
				sz = 1
			}
		}
		return jsonDesc{MediaType: "application/vnd.oci.image.layer.v1.tar", Digest: string(d), Size: max64(sz, 1)}
	}
	return jsonDesc{MediaType: "application/vnd.oci.image.layer.v1.tar", Digest: string(g.randomDigest()), Size: int64(g.C.Range("ref.size", 1, 99))}
}

// missingBlobRef names something no repository has.
func (g *Gen) missingBlobRef() jsonDesc {
	return jsonDesc{MediaType: "application/vnd.oci.image.layer.v1.tar", Digest: string(g.randomDigest()), Size: int64(g.C.Range("ref.size", 1, 99))}
}

func max64(a, b int64) int64 {
	if a > b {
		return a
	}
	return b
}

func (g *Gen) pickManRef(repo string, mislabel bool) jsonDesc {
	r := g.M.Repos[repo]
	if r != nil && len(r.Manifests) > 0 && !g.C.Bool("ref.manmissing", 1, 8) {
		ds := sortedDigests(r.Manifests)
		d := ds[g.C.Int("ref.man", len(ds))]
		mm := r.Manifests[d]
		mt := mm.MT
		if mislabel {
			mt = opaqueTypes[1]
		}
		return jsonDesc{MediaType: mt, Digest: string(d), Size: max64(int64(len(mm.Data)), 1)}
	}
	return jsonDesc{MediaType: MTImageManifest, Digest: string(g.randomDigest()), Size: int64(g.C.Range("ref.size", 1, 99))}
}

// manifest generates manifest content for repo.
func (g *Gen) manifest(repo string) (data []byte, mt string) {
	if len(g.pastMan) > 0 && g.C.Bool("man.repush", 1, 6) {
		p := g.pastMan[g.C.Int("man.past", len(g.pastMan))]
		if g.C.Bool("man.repush.othermt", 1, 8) {
			return p.data, opaqueTypes[g.C.Int("man.omt", len(opaqueTypes))]
		}
		return p.data, p.mt
	}
	g.serial++
	uniq := fmt.Sprintf("%d-%d", g.serial, g.C.Int("man.uniq", 1<<30))
	kind := g.C.Weighted("man.kind", []int{30, 35, 20, 8, 7})
	var obj map[string]any
	switch kind {
	case 0: // opaque
		mt = opaqueTypes[g.C.Int("man.omt", len(opaqueTypes))]
		if g.C.Bool("man.opaque.raw", 1, 3) {
			data = append([]byte("opaque-"+uniq+"-"), g.C.Bytes("man.raw", g.C.Range("man.rawlen", 0, 30))...)
			g.pastMan = append(g.pastMan, pastManifest{data, mt})
			return data, mt
		}
		// JSON that looks like an image manifest but is stored under an opaque type
		obj = map[string]any{"schemaVersion": 2, "config": g.pickBlobRef(repo), "layers": []jsonDesc{g.pickBlobRef(repo)}}
	case 1: // image manifest
		mt = MTImageManifest
		n := g.C.Range("man.layers", 0, 3)
		layers := make([]jsonDesc, 0, n)
		for i := 0; i < n; i++ {
			layers = append(layers, g.pickBlobRef(repo))
		}
		obj = map[string]any{"schemaVersion": 2, "mediaType": mt, "config": g.pickBlobRef(repo), "layers": layers}
	case 2: // index
		mt = MTImageIndex
		n := g.C.Range("man.children", 0, 3)
		children := make([]jsonDesc, 0, n)
		for i := 0; i < n; i++ {
			children = append(children, g.pickManRef(repo, g.C.Bool("man.mislabel", 1, 10)))
		}
		obj = map[string]any{"schemaVersion": 2, "mediaType": mt, "manifests": children}
	case 3: // malformed JSON under an OCI type
		mt = []string{MTImageManifest, MTImageIndex}[g.C.Int("man.badtype", 2)]
		data = []byte(`{"schemaVersion":2,"layers":[` + uniq)
		return data, mt
	case 4: // wrong shape under an OCI type (layers is a string)
		mt = []string{MTImageManifest, MTImageIndex}[g.C.Int("man.badtype", 2)]
		data = []byte(`{"schemaVersion":2,"layers":"x","manifests":7,"annotations":{"u":"` + uniq + `"}}`)
		return data, mt
	}
	if g.C.Bool("man.subject", 1, 3) {
		obj["subject"] = g.pickManRef(repo, false)
	}
	obj["annotations"] = map[string]string{"u": uniq}
	data, _ = json.Marshal(obj)
	if kind != 0 && g.C.Bool("man.trailing", 1, 12) {
		// a complete manifest with something after it: a second document (whose
		// references nobody would look at), a stray brace, text - none of it JSON as
		// a whole - or white space, which is
		second, _ := json.Marshal(map[string]any{"schemaVersion": 2, "mediaType": mt, "config": g.missingBlobRef(), "layers": []jsonDesc{g.missingBlobRef()}, "manifests": []jsonDesc{g.missingBlobRef()}, "subject": g.missingBlobRef()})
		tail := [][]byte{[]byte("}"), []byte(" trailing"), second, append([]byte("\n"), second...), []byte("\n \t\n"), []byte("]"), {0}}[g.C.Int("man.trailing.what", 7)]
		data = append(data, tail...)
	}
	g.pastMan = append(g.pastMan, pastManifest{data, mt})
	if len(g.pastMan) > 12 {
		g.pastMan = g.pastMan[1:]
	}
	return data, mt
}

func (g *Gen) start(existing []string) string {
	sort.Strings(existing)
	switch g.C.Weighted("start", []int{35, 25, 20, 10, 10, 8}) {
	case 0:
		return ""
	case 1:
		if len(existing) > 0 {
			return existing[g.C.Int("start.eq", len(existing))]
		}
	case 2:
		if len(existing) > 0 {
			e := existing[g.C.Int("start.between", len(existing))]
			return e[:len(e)-1] + string(rune(e[len(e)-1]-1)) + "z" // just before e
		}
	case 3:
		return "zzzz"
	case 4:
		return []string{"a b", "x&y=1", "q?n=1", "100%", "é"}[g.C.Int("start.meta", 5)]
	case 5:
		// a start point that is not a clean path: it is a string to compare
		// with, never a path to normalise
		if len(existing) > 0 {
			e := existing[g.C.Int("start.unclean", len(existing))]
			return []string{e + "/", e + "/.", e + "/..", "./" + e, e + "//", "/" + e}[g.C.Int("start.unclean.form", 6)]
		}
	}
	return ""
}

func (g *Gen) stop() int {
	if g.Cfg.Stops && g.C.Bool("stop", 1, 4) {
		return g.C.Range("stop.k", 0, 4)
	}
	return -1
}

func (g *Gen) readSize() int {
	if g.Cfg.SmallReads && g.C.Bool("readsize", 1, 3) {
		return []int{1, 2, 3, 7, 4096}[g.C.Int("readsize.n", 5)]
	}
	return 0
}

// Next generates the next operation.
func (g *Gen) Next() *Op {
	if g.Cfg.Motifs {
		if len(g.queue) == 0 && g.C.Bool("motif?", 1, 12) {
			g.queue = g.motif()
		}
		if len(g.queue) > 0 && g.C.Bool("motif.next", 3, 4) {
			op := g.queue[0]
			g.queue = g.queue[1:]
			return op
		}
	}
	w := g.Cfg.Weights
	if !g.Cfg.Uploads {
		for k := UpStart; k <= UpSize; k++ {
			w[k] = 0
		}
	} else if len(g.live) == 0 {
		for k := UpResume; k <= UpSize; k++ {
			w[k] = 0
		}
	}
	kind := Kind(g.C.Weighted("op", w[:]))
	op := &Op{Kind: kind, StopAfter: -1, ContentFault: -1}
	switch kind {
	case GetBlob, ResolveBlob, DeleteBlob:
		op.Repo = g.repo()
		op.Digest = g.blobDigest(op.Repo)
		op.ReadSize = g.readSize()
	case GetBlobRange:
		op.Repo = g.repo()
		op.Digest = g.blobDigest(op.Repo)
		size := int64(0)
		if r := g.M.Repos[op.Repo]; r != nil {
			size = int64(len(r.Blobs[op.Digest]))
		}
		pick := func(kind string) int64 {
			cands := []int64{0, 1, size - 1, size, size + 1, -1, size / 2, 2}
			v := cands[g.C.Int(kind, len(cands))]
			if v < -1 {
				v = -1
			}
			return v
		}
		op.O0 = pick("range.o0")
		if op.O0 < 0 {
			op.O0 = 0
		}
		op.O1 = pick("range.o1")
		op.ReadSize = g.readSize()
	case GetManifest, ResolveManifest, DeleteManifest:
		op.Repo = g.repo()
		op.Digest = g.manifestDigest(op.Repo)
		op.ReadSize = g.readSize()
	case GetTag, ResolveTag, DeleteTag:
		op.Repo = g.repo()
		op.Tag = g.tag()
		op.ReadSize = g.readSize()
	case PushBlob:
		op.Repo = g.writeRepo()
		op.Data = g.C.Bytes("blob", g.blobLen())
		if len(g.pastMan) > 0 && g.C.Bool("blob.manifest-bytes", 1, 10) {
			// the bytes of a manifest pushed earlier, as a blob: one digest, two kinds of
			// thing (a layer and a subject of one manifest may then carry the same digest)
			op.Data = g.pastMan[g.C.Int("blob.manifest-bytes.which", len(g.pastMan))].data
		}
		op.Digest = Sha256(op.Data)
		op.DeclSize = int64(len(op.Data))
		op.MediaType = "application/octet-stream"
		if g.Cfg.EmptyBlobMT && g.C.Bool("blob.emptymt", 1, 10) {
			op.MediaType = ""
		}
		if g.Cfg.AltAlgo && g.C.Bool("blob.altalgo", 1, 15) {
			op.Digest = Sum([]string{"sha512", "sha384"}[g.C.Int("blob.alg", 2)], op.Data)
		}
		if g.Cfg.BadPush && g.C.Bool("blob.bad", 1, 8) {
			nk := 4
			if g.Cfg.MalformedDigest {
				nk = 5
			}
			switch g.C.Int("blob.badkind", nk) {
			case 4:
				good := string(Sha256(op.Data))
				op.Digest = ociregistry.Digest([]string{"", "sha256:zz", "sha256:" + strings.ToUpper(good[7:]), "md5:d41d8cd98f00b204e9800998ecf8427e", good[:len(good)-1], "sha256", good + "0"}[g.C.Int("blob.malformed", 7)])
			case 0:
				op.Digest = g.randomDigest()
			case 1:
				op.DeclSize += int64(g.C.Range("blob.sizeoff", 1, 3))
			case 2:
				if op.DeclSize > 0 {
					op.DeclSize--
				} else {
					op.DeclSize = 1
				}
			case 3:
				// the digest of different content that is present (must not alias)
				op.Digest = g.blobDigest(op.Repo)
				if op.Digest == Sha256(op.Data) {
					op.Digest = g.randomDigest()
				}
			}
		}
		if g.Cfg.ContentFault && g.C.Bool("blob.readfault", 1, 12) && len(op.Data) > 0 {
			op.ContentFault = g.C.Int("blob.faultat", len(op.Data))
		}
		op.ReadSize = g.readSize()
	case MountBlob:
		op.Repo = g.writeRepo()
		op.Repo2 = g.repo()
		op.Digest = g.blobDigest(op.Repo2)
	case PushManifest:
		op.Repo = g.writeRepo()
		repoForRefs := op.Repo
		op.Data, op.MediaType = g.manifest(repoForRefs)
		if g.C.Bool("man.tagged", 2, 3) {
			op.Tag = g.tag()
			if g.C.Bool("man.badtag", 1, 40) {
				op.Tag = []string{".x", "-a", "a/b", "t t", "é"}[g.C.Int("man.badtag.i", 5)]
			}
		}
	case Repositories:
		var ex []string
		for n, r := range g.M.Repos {
			if r.hasContent() {
				ex = append(ex, n)
			}
		}
		op.Start = g.start(ex)
		op.StopAfter = g.stop()
	case Tags:
		op.Repo = g.repo()
		var ex []string
		if r := g.M.Repos[op.Repo]; r != nil {
			for t := range r.Tags {
				ex = append(ex, t)
			}
		}
		op.Start = g.start(ex)
		op.StopAfter = g.stop()
	case Referrers:
		op.Repo = g.repo()
		// mostly a digest that is some manifest's subject
		var subs []ociregistry.Digest
		if r := g.M.Repos[op.Repo]; r != nil {
			for _, d := range sortedDigests(r.Manifests) {
				if s := r.Manifests[d].Subject; s != "" {
					subs = append(subs, s)
				}
			}
		}
		if len(subs) > 0 && g.C.Bool("ref.subj", 3, 4) {
			op.Digest = subs[g.C.Int("ref.subj.i", len(subs))]
		} else {
			op.Digest = g.manifestDigest(op.Repo)
		}
		if !g.Cfg.HTTPSafe && g.C.Bool("ref.nodigest", 1, 12) {
			op.Digest = "" // (HTTP has no way of asking this)
		}
		op.StopAfter = g.stop()
	case UpStart:
		op.Repo = g.writeRepo()
		op.Handle = g.nextH
		g.nextH++
		op.ChunkSize = []int{0, -1, 1, 7, 100, 8192, 20000}[g.C.Int("up.chunk", 7)]
		if ValidRepo(op.Repo) {
			g.live = append(g.live, op.Handle)
		}
	case UpResume, UpWrite, UpClose, UpCommit, UpCancel, UpSize:
		op.Handle = g.live[g.C.Int("up.h", len(g.live))]
		u := g.M.Uploads[op.Handle]
		if u == nil {
			// the model never saw this upload start (it was refused): forget the handle
			g.dropLive(op.Handle)
			return g.Next()
		}
		if g.Cfg.HTTPSafe {
			// A buffering client loses unflushed data when a writer is dropped, and reports
			// a stale offset only when it flushes: over HTTP writers are used in the
			// disciplined way (close before resume, resume at the true offset).
			if g.closed == nil {
				g.closed = map[int]bool{}
			}
			if g.closed[op.Handle] {
				kind = UpResume
			} else if kind == UpResume {
				kind = UpClose
			}
			op.Kind = kind
			switch kind {
			case UpClose:
				g.closed[op.Handle] = true
			case UpResume:
				g.closed[op.Handle] = false
				op.Repo = u.Repo
				op.Offset = int64(len(u.Buf))
				if len(u.Buf) != 1 && g.C.Bool("up.ask", 1, 2) {
					op.Offset = -1
				}
				op.ChunkSize = []int{0, 1, 100, 8192}[g.C.Int("up.chunk", 4)]
				return op
			}
		}
		switch kind {
		case UpResume:
			op.Repo = u.Repo
			op.Offset = int64(len(u.Buf))
			switch g.C.Weighted("up.off", []int{50, 30, 20}) {
			case 1:
				op.Offset = -1
			case 2:
				op.Offset = int64(g.C.Range("up.stale", 0, len(u.Buf)+2))
			}
			op.ChunkSize = []int{0, 1, 100, 8192}[g.C.Int("up.chunk", 4)]
		case UpWrite:
			op.Data = g.C.Bytes("up.data", g.blobLen())
		case UpCommit:
			op.Digest = Sha256(u.Buf)
			if g.Cfg.Recommit && len(g.committed) > 0 && g.C.Bool("up.recommit", 1, 4) {
				op.Handle = g.committed[g.C.Int("up.recommit.h", len(g.committed))]
				op.Digest = Sha256(g.M.Uploads[op.Handle].Buf)
				if g.C.Bool("up.recommit.wrongdigest", 1, 3) {
					op.Digest = g.randomDigest()
				}
				return op
			}
			if g.Cfg.Recommit && !g.Cfg.HTTPSafe {
				g.committed = append(g.committed, op.Handle)
				if len(g.committed) > 4 {
					g.committed = g.committed[1:]
				}
			}
			if g.C.Bool("up.wrongdigest", 1, 6) {
				op.Digest = g.randomDigest()
			} else if g.Cfg.AltAlgo && g.C.Bool("up.altalgo", 1, 8) {
				// the right digest of the content in another registered algorithm: a
				// registry may refuse it, or accept it and then serve the blob under it
				op.Digest = Sum([]string{"sha512", "sha384"}[g.C.Int("up.altalgo.which", 2)], u.Buf)
			}
			g.dropLive(op.Handle)
		case UpCancel:
			g.dropLive(op.Handle)
		}
	}
	return op
}

func (g *Gen) dropLive(h int) {
	for i, x := range g.live {
		if x == h {
			g.live = append(g.live[:i], g.live[i+1:]...)
			return
		}
	}
}

// NextRead generates a read operation (GetBlob, GetBlobRange, GetManifest or GetTag)
// without touching the generator's bookkeeping.
func (g *Gen) NextRead() *Op {
	saved := g.Cfg.Weights
	var w [NumKinds]int
	w[GetBlob], w[GetBlobRange], w[GetManifest], w[GetTag] = 3, 2, 3, 4
	g.Cfg.Weights = w
	op := g.Next()
	g.Cfg.Weights = saved
	return op
}

// ---- motifs ----

func (g *Gen) mBlob(repo string) (*Op, jsonDesc) {
	g.serial++
	data := []byte(fmt.Sprintf("motif-blob-%d-%d", g.serial, g.C.Int("motif.uniq", 1<<20)))
	op := &Op{Kind: PushBlob, Repo: repo, Data: data, Digest: Sha256(data), DeclSize: int64(len(data)), MediaType: "application/octet-stream", StopAfter: -1, ContentFault: -1}
	return op, jsonDesc{MediaType: "application/vnd.oci.image.layer.v1.tar", Digest: string(op.Digest), Size: int64(len(data))}
}

func (g *Gen) mManifest(repo, tag, mt string, obj map[string]any) (*Op, jsonDesc) {
	g.serial++
	obj["schemaVersion"] = 2
	obj["mediaType"] = mt
	obj["annotations"] = map[string]string{"u": fmt.Sprintf("motif-%d-%d", g.serial, g.C.Int("motif.uniq", 1<<20))}
	data, _ := json.Marshal(obj)
	g.pastMan = append(g.pastMan, pastManifest{data, mt})
	op := &Op{Kind: PushManifest, Repo: repo, Tag: tag, Data: data, MediaType: mt, StopAfter: -1, ContentFault: -1}
	return op, jsonDesc{MediaType: mt, Digest: string(Sha256(data)), Size: int64(len(data))}
}

func (g *Gen) mImage(repo, tag string, cfg jsonDesc, layers []jsonDesc, subject *jsonDesc) (*Op, jsonDesc) {
	if layers == nil {
		layers = []jsonDesc{}
	}
	obj := map[string]any{"config": cfg, "layers": layers}
	if subject != nil {
		obj["subject"] = *subject
	}
	return g.mManifest(repo, tag, MTImageManifest, obj)
}

func (g *Gen) mIndex(repo, tag string, children []jsonDesc, subject *jsonDesc) (*Op, jsonDesc) {
	obj := map[string]any{"manifests": children}
	if subject != nil {
		obj["subject"] = *subject
	}
	return g.mManifest(repo, tag, MTImageIndex, obj)
}

func mDel(kind Kind, repo string, d jsonDesc) *Op {
	return &Op{Kind: kind, Repo: repo, Digest: ociregistry.Digest(d.Digest), StopAfter: -1, ContentFault: -1}
}

// motif builds one scripted history for a repository in play.
func (g *Gen) motif() []*Op {
	repo := g.repo()
	tag := g.tag()
	var ops []*Op
	add := func(op *Op, d jsonDesc) jsonDesc { ops = append(ops, op); return d }
	probes := func(ds ...jsonDesc) {
		// delete attempts (and reads) on everything the motif built, in a seeded order
		perm := g.C.Perm("motif.probe", len(ds))
		for _, i := range perm {
			d := ds[i]
			kind := DeleteBlob
			if d.MediaType == MTImageManifest || d.MediaType == MTImageIndex {
				kind = DeleteManifest
			}
			if g.C.Bool("motif.probe?", 2, 3) {
				ops = append(ops, mDel(kind, repo, d))
			}
		}
		ops = append(ops, &Op{Kind: GetTag, Repo: repo, Tag: tag, StopAfter: -1, ContentFault: -1})
	}
	switch g.C.Int("motif.kind", 6) {
	case 5:
		// an index whose descriptor of a member mislabels the member's media type; the
		// member is then pushed again, untagged, under yet another type: whatever the
		// registry believes about types, what the tag reaches must stay
		c1 := add(g.mBlob(repo))
		m1op, m1 := g.mImage(repo, "", c1, nil, nil)
		add(m1op, m1)
		mislabelled := m1
		mislabelled.MediaType = opaqueTypes[g.C.Int("motif.mislabel", len(opaqueTypes))]
		idx := add(g.mIndex(repo, tag, []jsonDesc{mislabelled}, nil))
		again := *m1op
		again.MediaType = opaqueTypes[g.C.Int("motif.again", len(opaqueTypes))]
		ops = append(ops, &again)
		probes(c1, m1, idx)
		return ops
	case 4:
		// a tagged manifest pushed again, untagged, under another media type; then
		// everything that reports its descriptor (small and beyond the size up to
		// which a client keeps manifests in memory)
		g.serial++
		data := []byte(fmt.Sprintf("motif-opaque-%d-%d", g.serial, g.C.Int("motif.uniq", 1<<20)))
		if g.C.Bool("motif.big", 1, 3) {
			data = append(data, make([]byte, 131080+g.C.Int("motif.pad", 9))...)
			for i := range data[20:] {
				data[20+i] = ' '
			}
		}
		types := g.C.Perm("motif.types", len(opaqueTypes))
		push := func(tag, mt string) *Op {
			return &Op{Kind: PushManifest, Repo: repo, Tag: tag, Data: data, MediaType: mt, StopAfter: -1, ContentFault: -1}
		}
		g.pastMan = append(g.pastMan, pastManifest{data, opaqueTypes[types[0]]})
		ops = append(ops, push(tag, opaqueTypes[types[0]]), push("", opaqueTypes[types[1]]))
		d := Sha256(data)
		for _, k := range []Kind{GetTag, ResolveTag, GetManifest, ResolveManifest} {
			if g.C.Bool("motif.read?", 3, 4) {
				ops = append(ops, &Op{Kind: k, Repo: repo, Tag: tag, Digest: d, StopAfter: -1, ContentFault: -1})
			}
		}
		return ops
	case 0:
		// nested index, one member deleted before anything is tagged, then the outer
		// index is tagged: everything still reachable must stay
		c1 := add(g.mBlob(repo))
		c2 := add(g.mBlob(repo))
		m1 := add(g.mImage(repo, "", c1, nil, nil))
		m2 := add(g.mImage(repo, "", c2, []jsonDesc{c1}, nil))
		members := []jsonDesc{m1, m2}
		if g.C.Bool("motif.swap", 1, 2) {
			members = []jsonDesc{m2, m1}
		}
		inner := add(g.mIndex(repo, "", members, nil))
		ops = append(ops, mDel(DeleteManifest, repo, members[g.C.Int("motif.del", 2)]))
		outer := add(g.mIndex(repo, tag, []jsonDesc{inner}, nil))
		probes(c1, c2, m1, m2, inner, outer)
	case 1:
		// a reference that dangles when the tag is set and is filled in later
		c1 := add(g.mBlob(repo))
		c2op, c2 := g.mBlob(repo)
		sop, sd := g.mImage(repo, "", c2, nil, nil)
		if g.C.Bool("motif.viasubject", 1, 2) {
			add(g.mImage(repo, tag, c1, nil, &sd))
		} else {
			// an index may only be pushed with its members present: push, delete, re-push
			ops = append(ops, c2op, sop)
			idxOp, idx := g.mIndex(repo, "", []jsonDesc{sd}, nil)
			add(idxOp, idx)
			ops = append(ops, mDel(DeleteManifest, repo, sd), mDel(DeleteBlob, repo, c2))
			add(g.mIndex(repo, tag, []jsonDesc{idx}, nil))
		}
		// unrelated churn (whatever the registry remembers about reachability is now stale)
		x := add(g.mBlob(repo))
		ops = append(ops, mDel(DeleteBlob, repo, x))
		ops = append(ops, c2op, sop)
		probes(c1, c2, sd)
	case 2:
		// the same blob referenced directly and through an index; one path is removed
		c1 := add(g.mBlob(repo))
		m1 := add(g.mImage(repo, "", c1, []jsonDesc{c1}, nil))
		idx := add(g.mIndex(repo, tag, []jsonDesc{m1}, nil))
		m3 := add(g.mImage(repo, "", c1, nil, &idx))
		ops = append(ops, mDel(DeleteManifest, repo, m3))
		probes(c1, m1, idx)
	case 3:
		// tag moves (or is refused) between two images sharing a layer
		shared := add(g.mBlob(repo))
		a := add(g.mBlob(repo))
		b := add(g.mBlob(repo))
		m1 := add(g.mImage(repo, tag, a, []jsonDesc{shared}, nil))
		m2 := add(g.mImage(repo, tag, b, []jsonDesc{shared}, nil))
		if g.C.Bool("motif.deltag", 1, 2) {
			ops = append(ops, &Op{Kind: DeleteTag, Repo: repo, Tag: tag, StopAfter: -1, ContentFault: -1})
		}
		probes(shared, a, b, m1, m2)
	}
	return ops
}
