// Package reg holds the reference registry model (refreg), the operation
// representation shared by all scenarios, an executor that runs an operation
// against any ociregistry.Interface, and recording / fault-injecting wrappers.
package reg

import (
	"bytes"
	"context"
	"errors"
	"fmt"
	"io"
	"regexp"
	"sort"
	"strings"
	"verifsim/core"

	"cuelabs.dev/go/oci/ociregistry"
	"github.com/opencontainers/go-digest"
)

type Kind int

const (
	GetBlob Kind = iota
	GetBlobRange
	GetManifest
	GetTag
	ResolveBlob
	ResolveManifest
	ResolveTag
	PushBlob
	MountBlob
	PushManifest
	DeleteBlob
	DeleteManifest
	DeleteTag
	Repositories
	Tags
	Referrers
	UpStart  // PushBlobChunked
	UpResume // PushBlobChunkedResume
	UpWrite
	UpClose
	UpCommit
	UpCancel
	UpSize
	NumKinds
)

var kindNames = [...]string{"GetBlob", "GetBlobRange", "GetManifest", "GetTag", "ResolveBlob", "ResolveManifest", "ResolveTag",
	"PushBlob", "MountBlob", "PushManifest", "DeleteBlob", "DeleteManifest", "DeleteTag", "Repositories", "Tags", "Referrers",
	"UpStart", "UpResume", "UpWrite", "UpClose", "UpCommit", "UpCancel", "UpSize"}

func (k Kind) String() string { return kindNames[k] }

// Op is one call on the registry interface (or on a BlobWriter it handed out).
type Op struct {
	Kind      Kind
	Repo      string
	Repo2     string // MountBlob: source repository
	Digest    ociregistry.Digest
	Tag       string
	Data      []byte // PushBlob / PushManifest / UpWrite content
	MediaType string
	DeclSize  int64 // PushBlob: desc.Size
	O0, O1    int64 // GetBlobRange
	Start     string
	Handle    int   // upload handle (index into Handles)
	Offset    int64 // UpResume
	ChunkSize int
	// StopAfter >= 0: a listing consumer that declines further items after that many.
	StopAfter int
	// ReadSize: buffer size used to drain readers (0 = io.ReadAll).
	ReadSize int
	// ContentFault: the io.Reader given to PushBlob fails after this many bytes (-1: none).
	ContentFault int
	// Slow marks a listing whose consumer takes its time between items; Between, set
	// by whoever executes the operation, is what it does there (a scheduler yield).
	Slow    bool
	Between func()
}

func (o *Op) String() string {
	var sb strings.Builder
	sb.WriteString(o.Kind.String())
	sb.WriteString("(")
	switch o.Kind {
	case GetBlob, ResolveBlob, GetManifest, ResolveManifest, DeleteBlob, DeleteManifest:
		fmt.Fprintf(&sb, "%q, %s", o.Repo, short(o.Digest))
	case GetBlobRange:
		fmt.Fprintf(&sb, "%q, %s, %d, %d", o.Repo, short(o.Digest), o.O0, o.O1)
	case GetTag, ResolveTag, DeleteTag:
		fmt.Fprintf(&sb, "%q, %q", o.Repo, o.Tag)
	case PushBlob:
		fmt.Fprintf(&sb, "%q, {digest %s size %d mt %q}, %d bytes", o.Repo, short(o.Digest), o.DeclSize, o.MediaType, len(o.Data))
		if o.ContentFault >= 0 {
			fmt.Fprintf(&sb, ", reader fails at %d", o.ContentFault)
		}
	case MountBlob:
		fmt.Fprintf(&sb, "from %q to %q, %s", o.Repo2, o.Repo, short(o.Digest))
	case PushManifest:
		fmt.Fprintf(&sb, "%q, tag %q, %d bytes %s, mt %q", o.Repo, o.Tag, len(o.Data), short(digest.FromBytes(o.Data)), o.MediaType)
		if len(o.Data) <= 700 {
			fmt.Fprintf(&sb, ", content %q", shortenDigests(string(o.Data)))
		}
	case Repositories:
		fmt.Fprintf(&sb, "after %q", o.Start)
	case Tags:
		fmt.Fprintf(&sb, "%q after %q", o.Repo, o.Start)
	case Referrers:
		fmt.Fprintf(&sb, "%q, %s", o.Repo, short(o.Digest))
	case UpStart:
		fmt.Fprintf(&sb, "%q, chunk %d -> h%d", o.Repo, o.ChunkSize, o.Handle)
	case UpResume:
		fmt.Fprintf(&sb, "%q, h%d, offset %d, chunk %d", o.Repo, o.Handle, o.Offset, o.ChunkSize)
	case UpWrite:
		fmt.Fprintf(&sb, "h%d, %d bytes", o.Handle, len(o.Data))
	case UpCommit:
		fmt.Fprintf(&sb, "h%d, %s", o.Handle, short(o.Digest))
	default:
		fmt.Fprintf(&sb, "h%d", o.Handle)
	}
	if o.StopAfter >= 0 && (o.Kind == Repositories || o.Kind == Tags || o.Kind == Referrers) {
		fmt.Fprintf(&sb, ", stop after %d", o.StopAfter)
	}
	sb.WriteString(")")
	return sb.String()
}

var digestRe = regexp.MustCompile(`(sha(?:256|384|512):[0-9a-f]{8})[0-9a-f]+`)

func shortenDigests(s string) string { return digestRe.ReplaceAllString(s, "$1") }

func short(d ociregistry.Digest) string {
	s := string(d)
	if i := strings.IndexByte(s, ':'); i >= 0 && len(s) > i+9 {
		return s[:i+9]
	}
	return s
}

// Res is what an operation returned.
type Res struct {
	Err        error
	Desc       ociregistry.Descriptor
	Data       []byte // bytes read to EOF
	ReadErr    error  // error that ended the read instead of EOF
	Items      []string
	Descs      []ociregistry.Descriptor
	ListErr    error // error delivered by the iterator
	ExtraCalls int   // calls of the consumer after it declined or after an error
	N          int
	Size       int64
	ID         string
	Chunk      int
	Panicked   any
}

func (r *Res) String() string {
	if r.Err != nil {
		return "error: " + CodeOf(r.Err) + " (" + firstLine(r.Err.Error()) + ")"
	}
	var sb strings.Builder
	sb.WriteString("ok")
	if r.Desc.Digest != "" {
		fmt.Fprintf(&sb, " desc{%s %d %q}", short(r.Desc.Digest), r.Desc.Size, r.Desc.MediaType)
	}
	if r.Data != nil || r.ReadErr != nil {
		fmt.Fprintf(&sb, " read %d bytes", len(r.Data))
		if r.ReadErr != nil {
			fmt.Fprintf(&sb, " then error %q", firstLine(r.ReadErr.Error()))
		}
	}
	if r.Items != nil || r.Descs != nil || r.ListErr != nil {
		fmt.Fprintf(&sb, " items %v", r.Items)
		for _, d := range r.Descs {
			fmt.Fprintf(&sb, " %s", short(d.Digest))
		}
		if r.ListErr != nil {
			fmt.Fprintf(&sb, " then error %s", CodeOf(r.ListErr))
		}
	}
	return sb.String()
}

func firstLine(s string) string {
	if i := strings.IndexByte(s, '\n'); i >= 0 {
		s = s[:i]
	}
	if len(s) > 160 {
		s = s[:160] + "..."
	}
	return s
}

// StdErrors are the 15 standard error values of the ociregistry package.
var StdErrors = []ociregistry.Error{
	ociregistry.ErrBlobUnknown, ociregistry.ErrBlobUploadInvalid, ociregistry.ErrBlobUploadUnknown,
	ociregistry.ErrDigestInvalid, ociregistry.ErrManifestBlobUnknown, ociregistry.ErrManifestInvalid,
	ociregistry.ErrManifestUnknown, ociregistry.ErrNameInvalid, ociregistry.ErrNameUnknown,
	ociregistry.ErrSizeInvalid, ociregistry.ErrUnauthorized, ociregistry.ErrDenied,
	ociregistry.ErrUnsupported, ociregistry.ErrTooManyRequests, ociregistry.ErrRangeInvalid,
}

// CodeOf returns the set of standard errors err matches under errors.Is, as a
// stable string ("" for success, "uncoded" for an error matching none).
func CodeOf(err error) string {
	if err == nil {
		return ""
	}
	var cs []string
	for _, e := range StdErrors {
		if errors.Is(err, e) {
			cs = append(cs, e.Code())
		}
	}
	if len(cs) == 0 {
		return "uncoded"
	}
	sort.Strings(cs)
	return strings.Join(cs, "+")
}

// Handles maps upload handle numbers to live BlobWriters.
type Handles struct {
	W  map[int]ociregistry.BlobWriter
	ID map[int]string
}

func NewHandles() *Handles {
	return &Handles{W: map[int]ociregistry.BlobWriter{}, ID: map[int]string{}}
}

type faultReader struct {
	r    io.Reader
	left int
}

var ErrInjectedRead = errors.New("injected content reader failure")

func (f *faultReader) Read(p []byte) (int, error) {
	if f.left <= 0 {
		return 0, ErrInjectedRead
	}
	if len(p) > f.left {
		p = p[:f.left]
	}
	n, err := f.r.Read(p)
	f.left -= n
	if err == io.EOF && f.left > 0 {
		return n, io.EOF
	}
	return n, err
}

type smallReader struct {
	r io.Reader
	n int
}

func (s *smallReader) Read(p []byte) (int, error) {
	if len(p) > s.n {
		p = p[:s.n]
	}
	return s.r.Read(p)
}

func drain(r ociregistry.BlobReader, readSize int) ([]byte, error) {
	defer r.Close()
	var buf bytes.Buffer
	var src io.Reader = r
	if readSize > 0 {
		src = &smallReader{r, readSize}
	}
	// Bounded: a reader that never ends is a defect, not something to wait for.
	n, err := io.Copy(&buf, io.LimitReader(src, 64<<20))
	if n == 64<<20 {
		return buf.Bytes(), errors.New("reader produced more than 64 MiB")
	}
	return buf.Bytes(), err
}

func collect[T any](seq ociregistry.Seq[T], stopAfter int, between func()) (items []T, lerr error, extra int) {
	done := false
	seq(func(x T, err error) bool {
		if between != nil && !done {
			between()
		}
		if done {
			extra++
			return false
		}
		if err != nil {
			lerr = err
			done = true
			return false
		}
		if stopAfter == 0 {
			done = true
			return false
		}
		items = append(items, x)
		if stopAfter > 0 && len(items) >= stopAfter {
			// the consumer has what it wanted and declines further items
			done = true
			return false
		}
		return true
	})
	return
}

// Exec runs op against r. Readers are drained and closed; listings are consumed.
func Exec(ctx context.Context, r ociregistry.Interface, op *Op, h *Handles) (res *Res) {
	res = &Res{}
	// (in a scenario without a scheduler: what the operation leaves running in the
	// background belongs to it, and has ended when Exec returns)
	defer core.Settle()
	switch op.Kind {
	case GetBlob, GetBlobRange, GetManifest, GetTag:
		var br ociregistry.BlobReader
		var err error
		switch op.Kind {
		case GetBlob:
			br, err = r.GetBlob(ctx, op.Repo, op.Digest)
		case GetBlobRange:
			br, err = r.GetBlobRange(ctx, op.Repo, op.Digest, op.O0, op.O1)
		case GetManifest:
			br, err = r.GetManifest(ctx, op.Repo, op.Digest)
		case GetTag:
			br, err = r.GetTag(ctx, op.Repo, op.Tag)
		}
		if err != nil {
			res.Err = err
			return
		}
		res.Desc = br.Descriptor()
		res.Data, res.ReadErr = drain(br, op.ReadSize)
		if res.Data == nil {
			res.Data = []byte{}
		}
	case ResolveBlob:
		res.Desc, res.Err = r.ResolveBlob(ctx, op.Repo, op.Digest)
	case ResolveManifest:
		res.Desc, res.Err = r.ResolveManifest(ctx, op.Repo, op.Digest)
	case ResolveTag:
		res.Desc, res.Err = r.ResolveTag(ctx, op.Repo, op.Tag)
	case PushBlob:
		var rd io.Reader = bytes.NewReader(op.Data)
		if op.ContentFault >= 0 {
			rd = &faultReader{rd, op.ContentFault}
		}
		if op.ReadSize > 0 {
			rd = &smallReader{rd, op.ReadSize}
		}
		res.Desc, res.Err = r.PushBlob(ctx, op.Repo, ociregistry.Descriptor{
			MediaType: op.MediaType, Digest: op.Digest, Size: op.DeclSize,
		}, rd)
	case MountBlob:
		res.Desc, res.Err = r.MountBlob(ctx, op.Repo2, op.Repo, op.Digest)
	case PushManifest:
		// The caller owns its buffer again as soon as the call returns: the registry is
		// handed a scratch copy which is overwritten afterwards.
		scratch := append([]byte(nil), op.Data...)
		res.Desc, res.Err = r.PushManifest(ctx, op.Repo, op.Tag, scratch, op.MediaType)
		scribble(scratch)
	case DeleteBlob:
		res.Err = r.DeleteBlob(ctx, op.Repo, op.Digest)
	case DeleteManifest:
		res.Err = r.DeleteManifest(ctx, op.Repo, op.Digest)
	case DeleteTag:
		res.Err = r.DeleteTag(ctx, op.Repo, op.Tag)
	case Repositories:
		res.Items, res.ListErr, res.ExtraCalls = collect(r.Repositories(ctx, op.Start), op.StopAfter, op.Between)
		if res.Items == nil {
			res.Items = []string{}
		}
	case Tags:
		res.Items, res.ListErr, res.ExtraCalls = collect(r.Tags(ctx, op.Repo, op.Start), op.StopAfter, op.Between)
		if res.Items == nil {
			res.Items = []string{}
		}
	case Referrers:
		res.Descs, res.ListErr, res.ExtraCalls = collect(r.Referrers(ctx, op.Repo, op.Digest, ""), op.StopAfter, op.Between)
		if res.Descs == nil {
			res.Descs = []ociregistry.Descriptor{}
		}
	case UpStart:
		w, err := r.PushBlobChunked(ctx, op.Repo, op.ChunkSize)
		if err != nil {
			res.Err = err
			return
		}
		h.W[op.Handle] = w
		res.ID = w.ID()
		h.ID[op.Handle] = res.ID
		res.Size = w.Size()
		res.Chunk = w.ChunkSize()
	case UpResume:
		w, err := r.PushBlobChunkedResume(ctx, op.Repo, h.ID[op.Handle], op.Offset, op.ChunkSize)
		if err != nil {
			res.Err = err
			return
		}
		h.W[op.Handle] = w
		res.ID = w.ID()
		res.Size = w.Size()
		res.Chunk = w.ChunkSize()
	case UpWrite:
		w := h.W[op.Handle]
		scratch := append([]byte(nil), op.Data...)
		res.N, res.Err = w.Write(scratch) // (io.Writer: "Write must not retain p")
		scribble(scratch)
		res.Size = w.Size()
	case UpClose:
		w := h.W[op.Handle]
		res.Err = w.Close()
		res.Size = w.Size()
		if res.Err == nil {
			res.ID = w.ID()
			h.ID[op.Handle] = res.ID
		}
	case UpCommit:
		w := h.W[op.Handle]
		res.Desc, res.Err = w.Commit(op.Digest)
	case UpCancel:
		w := h.W[op.Handle]
		res.Err = w.Cancel()
	case UpSize:
		res.Size = h.W[op.Handle].Size()
	}
	return res
}

func openReader(ctx context.Context, r ociregistry.Interface, op *Op) (ociregistry.BlobReader, error) {
	switch op.Kind {
	case GetBlob:
		return r.GetBlob(ctx, op.Repo, op.Digest)
	case GetBlobRange:
		return r.GetBlobRange(ctx, op.Repo, op.Digest, op.O0, op.O1)
	case GetManifest:
		return r.GetManifest(ctx, op.Repo, op.Digest)
	case GetTag:
		return r.GetTag(ctx, op.Repo, op.Tag)
	}
	return nil, fmt.Errorf("not a read operation: %s", op.Kind)
}

// IsRead reports whether op returns a BlobReader.
func IsRead(k Kind) bool { return k == GetBlob || k == GetBlobRange || k == GetManifest || k == GetTag }

// ExecOverlapped opens the readers of two read operations before draining either:
// both are open at the same time, the first is drained first.
func ExecOverlapped(ctx context.Context, r ociregistry.Interface, op1, op2 *Op) (*Res, *Res) {
	res := [2]*Res{{}, {}}
	var brs [2]ociregistry.BlobReader
	for i, op := range []*Op{op1, op2} {
		br, err := openReader(ctx, r, op)
		if err != nil {
			res[i].Err = err
			continue
		}
		brs[i] = br
		res[i].Desc = br.Descriptor()
	}
	for i, op := range []*Op{op1, op2} {
		if brs[i] == nil {
			continue
		}
		res[i].Data, res[i].ReadErr = drain(brs[i], op.ReadSize)
		if res[i].Data == nil {
			res[i].Data = []byte{}
		}
	}
	return res[0], res[1]
}

// scribble overwrites a buffer the caller has got back.
func scribble(b []byte) {
	for i := range b {
		b[i] = '#'
	}
}
