package reg

import (
	"context"
	"errors"
	"fmt"
	"io"

	"cuelabs.dev/go/oci/ociregistry"
	"cuelabs.dev/go/oci/ociregistry/ociauth"
)

// Call is one recorded backend call.
type Call struct {
	Method string
	Repo   string
	Repo2  string
	Digest ociregistry.Digest
	Tag    string
	Start  string
	O0, O1 int64
	ID     string
	Offset int64
	Chunk  int
	Data   []byte
	MT     string
	Size   int64
	Scope  string // auth scope found in the context
}

func (c Call) String() string {
	return fmt.Sprintf("%s(repo=%q repo2=%q digest=%s tag=%q start=%q o=[%d,%d) id=%q off=%d)", c.Method, c.Repo, c.Repo2, short(c.Digest), c.Tag, c.Start, c.O0, c.O1, c.ID, c.Offset)
}

// Tracker tracks readers and writers handed out by a wrapped backend.
type Tracker struct {
	Calls  []Call
	Open   map[int]string // handle -> description of readers/writers not yet closed
	nextID int
	Closed int
	Opened int
}

func NewTracker() *Tracker { return &Tracker{Open: map[int]string{}} }

func (t *Tracker) Reset() { t.Calls = nil }

type trackedReader struct {
	ociregistry.BlobReader
	t  *Tracker
	id int
	// fault: fail after this many bytes (-1: none)
	failAt int
	n      int
}

var ErrInjectedBackend = errors.New("injected backend failure")

func (r *trackedReader) Read(p []byte) (int, error) {
	if r.failAt >= 0 && r.n >= r.failAt {
		return 0, ErrInjectedBackend
	}
	if r.failAt >= 0 && len(p) > r.failAt-r.n {
		p = p[:r.failAt-r.n]
	}
	n, err := r.BlobReader.Read(p)
	r.n += n
	return n, err
}

func (r *trackedReader) Close() error {
	if _, ok := r.t.Open[r.id]; ok {
		delete(r.t.Open, r.id)
		r.t.Closed++
	}
	return r.BlobReader.Close()
}

type trackedWriter struct {
	ociregistry.BlobWriter
	t      *Tracker
	id     int
	failW  bool
	failC  bool
	closed bool
	// failClose, if non-nil, is consulted when Close is called: true makes Close
	// fail without reaching the backend writer (as a buffering writer whose final
	// flush is lost).
	failClose func() bool
}

func (w *trackedWriter) done() {
	if _, ok := w.t.Open[w.id]; ok {
		delete(w.t.Open, w.id)
		w.t.Closed++
	}
}

func (w *trackedWriter) Write(p []byte) (int, error) {
	if w.failW {
		return 0, ErrInjectedBackend
	}
	return w.BlobWriter.Write(p)
}

func (w *trackedWriter) Close() error {
	w.done()
	if w.failClose != nil && w.failClose() {
		return ErrInjectedBackend
	}
	return w.BlobWriter.Close()
}
func (w *trackedWriter) Cancel() error { w.done(); return w.BlobWriter.Cancel() }
func (w *trackedWriter) Commit(d ociregistry.Digest) (ociregistry.Descriptor, error) {
	if w.failC {
		return ociregistry.Descriptor{}, ErrInjectedBackend
	}
	desc, err := w.BlobWriter.Commit(d)
	if err == nil {
		// a committed writer needs no Close
		w.done()
	}
	return desc, err
}

// FaultPlan decides backend faults. Each hook may be nil.
type FaultPlan struct {
	// CallErr returns a non-nil error to make the call fail instead of reaching the backend.
	CallErr func(c *Call) error
	// ReaderFailAt returns the byte position at which a returned reader fails (-1: never).
	ReaderFailAt func(c *Call) int
	// IterFailAfter returns after how many items a listing delivers err (-1: never).
	IterFailAfter func(c *Call) (int, error)
	WriterFaults  func(c *Call) (failWrite, failCommit bool)
	// WriterCloseFails is asked each time a writer handed out by the backend is closed.
	WriterCloseFails func() bool
	// IterFaultsDelivered counts the listing errors actually handed to a consumer
	// (a listing that fails by itself first, or whose consumer stops first, never
	// gets to the injected one).
	IterFaultsDelivered int
	// IterItemsBeforeFault: how many items the listing that got the (last) injected
	// error had delivered before it.
	IterItemsBeforeFault int
}

// Wrap returns an Interface that records every call in t (with its arguments and
// the auth scope in the context), tracks readers/writers, and applies plan.
func Wrap(inner ociregistry.Interface, t *Tracker, plan *FaultPlan) ociregistry.Interface {
	if plan == nil {
		plan = &FaultPlan{}
	}
	rec := func(ctx context.Context, c Call) (*Call, error) {
		if s := ociauth.ScopeFromContext(ctx); !s.IsEmpty() {
			c.Scope = s.String()
		}
		t.Calls = append(t.Calls, c)
		cp := &t.Calls[len(t.Calls)-1]
		if plan.CallErr != nil {
			if err := plan.CallErr(cp); err != nil {
				return cp, err
			}
		}
		return cp, nil
	}
	reader := func(c *Call, br ociregistry.BlobReader, err error) (ociregistry.BlobReader, error) {
		if err != nil {
			return nil, err
		}
		t.nextID++
		t.Opened++
		t.Open[t.nextID] = "reader from " + c.String()
		tr := &trackedReader{BlobReader: br, t: t, id: t.nextID, failAt: -1}
		if plan.ReaderFailAt != nil {
			tr.failAt = plan.ReaderFailAt(c)
		}
		return tr, nil
	}
	writer := func(c *Call, w ociregistry.BlobWriter, err error) (ociregistry.BlobWriter, error) {
		if err != nil {
			return nil, err
		}
		t.nextID++
		t.Opened++
		t.Open[t.nextID] = "writer from " + c.String()
		tw := &trackedWriter{BlobWriter: w, t: t, id: t.nextID}
		if plan.WriterFaults != nil {
			tw.failW, tw.failC = plan.WriterFaults(c)
		}
		tw.failClose = plan.WriterCloseFails
		return tw, nil
	}
	return &ociregistry.Funcs{
		GetBlob_: func(ctx context.Context, repo string, d ociregistry.Digest) (ociregistry.BlobReader, error) {
			c, err := rec(ctx, Call{Method: "GetBlob", Repo: repo, Digest: d})
			if err != nil {
				return nil, err
			}
			br, err := inner.GetBlob(ctx, repo, d)
			return reader(c, br, err)
		},
		GetBlobRange_: func(ctx context.Context, repo string, d ociregistry.Digest, o0, o1 int64) (ociregistry.BlobReader, error) {
			c, err := rec(ctx, Call{Method: "GetBlobRange", Repo: repo, Digest: d, O0: o0, O1: o1})
			if err != nil {
				return nil, err
			}
			br, err := inner.GetBlobRange(ctx, repo, d, o0, o1)
			return reader(c, br, err)
		},
		GetManifest_: func(ctx context.Context, repo string, d ociregistry.Digest) (ociregistry.BlobReader, error) {
			c, err := rec(ctx, Call{Method: "GetManifest", Repo: repo, Digest: d})
			if err != nil {
				return nil, err
			}
			br, err := inner.GetManifest(ctx, repo, d)
			return reader(c, br, err)
		},
		GetTag_: func(ctx context.Context, repo string, tag string) (ociregistry.BlobReader, error) {
			c, err := rec(ctx, Call{Method: "GetTag", Repo: repo, Tag: tag})
			if err != nil {
				return nil, err
			}
			br, err := inner.GetTag(ctx, repo, tag)
			return reader(c, br, err)
		},
		ResolveBlob_: func(ctx context.Context, repo string, d ociregistry.Digest) (ociregistry.Descriptor, error) {
			if _, err := rec(ctx, Call{Method: "ResolveBlob", Repo: repo, Digest: d}); err != nil {
				return ociregistry.Descriptor{}, err
			}
			return inner.ResolveBlob(ctx, repo, d)
		},
		ResolveManifest_: func(ctx context.Context, repo string, d ociregistry.Digest) (ociregistry.Descriptor, error) {
			if _, err := rec(ctx, Call{Method: "ResolveManifest", Repo: repo, Digest: d}); err != nil {
				return ociregistry.Descriptor{}, err
			}
			return inner.ResolveManifest(ctx, repo, d)
		},
		ResolveTag_: func(ctx context.Context, repo string, tag string) (ociregistry.Descriptor, error) {
			if _, err := rec(ctx, Call{Method: "ResolveTag", Repo: repo, Tag: tag}); err != nil {
				return ociregistry.Descriptor{}, err
			}
			return inner.ResolveTag(ctx, repo, tag)
		},
		PushBlob_: func(ctx context.Context, repo string, desc ociregistry.Descriptor, r io.Reader) (ociregistry.Descriptor, error) {
			if _, err := rec(ctx, Call{Method: "PushBlob", Repo: repo, Digest: desc.Digest, Size: desc.Size, MT: desc.MediaType}); err != nil {
				return ociregistry.Descriptor{}, err
			}
			return inner.PushBlob(ctx, repo, desc, r)
		},
		PushBlobChunked_: func(ctx context.Context, repo string, chunk int) (ociregistry.BlobWriter, error) {
			c, err := rec(ctx, Call{Method: "PushBlobChunked", Repo: repo, Chunk: chunk})
			if err != nil {
				return nil, err
			}
			w, err := inner.PushBlobChunked(ctx, repo, chunk)
			return writer(c, w, err)
		},
		PushBlobChunkedResume_: func(ctx context.Context, repo, id string, off int64, chunk int) (ociregistry.BlobWriter, error) {
			c, err := rec(ctx, Call{Method: "PushBlobChunkedResume", Repo: repo, ID: id, Offset: off, Chunk: chunk})
			if err != nil {
				return nil, err
			}
			w, err := inner.PushBlobChunkedResume(ctx, repo, id, off, chunk)
			return writer(c, w, err)
		},
		MountBlob_: func(ctx context.Context, from, to string, d ociregistry.Digest) (ociregistry.Descriptor, error) {
			if _, err := rec(ctx, Call{Method: "MountBlob", Repo: to, Repo2: from, Digest: d}); err != nil {
				return ociregistry.Descriptor{}, err
			}
			return inner.MountBlob(ctx, from, to, d)
		},
		PushManifest_: func(ctx context.Context, repo, tag string, data []byte, mt string) (ociregistry.Descriptor, error) {
			if _, err := rec(ctx, Call{Method: "PushManifest", Repo: repo, Tag: tag, Data: data, MT: mt}); err != nil {
				return ociregistry.Descriptor{}, err
			}
			return inner.PushManifest(ctx, repo, tag, data, mt)
		},
		DeleteBlob_: func(ctx context.Context, repo string, d ociregistry.Digest) error {
			if _, err := rec(ctx, Call{Method: "DeleteBlob", Repo: repo, Digest: d}); err != nil {
				return err
			}
			return inner.DeleteBlob(ctx, repo, d)
		},
		DeleteManifest_: func(ctx context.Context, repo string, d ociregistry.Digest) error {
			if _, err := rec(ctx, Call{Method: "DeleteManifest", Repo: repo, Digest: d}); err != nil {
				return err
			}
			return inner.DeleteManifest(ctx, repo, d)
		},
		DeleteTag_: func(ctx context.Context, repo, tag string) error {
			if _, err := rec(ctx, Call{Method: "DeleteTag", Repo: repo, Tag: tag}); err != nil {
				return err
			}
			return inner.DeleteTag(ctx, repo, tag)
		},
		Repositories_: func(ctx context.Context, start string) ociregistry.Seq[string] {
			c, err := rec(ctx, Call{Method: "Repositories", Start: start})
			if err != nil {
				return ociregistry.ErrorSeq[string](err)
			}
			return faultSeq(inner.Repositories(ctx, start), plan, c)
		},
		Tags_: func(ctx context.Context, repo, start string) ociregistry.Seq[string] {
			c, err := rec(ctx, Call{Method: "Tags", Repo: repo, Start: start})
			if err != nil {
				return ociregistry.ErrorSeq[string](err)
			}
			return faultSeq(inner.Tags(ctx, repo, start), plan, c)
		},
		Referrers_: func(ctx context.Context, repo string, d ociregistry.Digest, at string) ociregistry.Seq[ociregistry.Descriptor] {
			c, err := rec(ctx, Call{Method: "Referrers", Repo: repo, Digest: d, MT: at})
			if err != nil {
				return ociregistry.ErrorSeq[ociregistry.Descriptor](err)
			}
			return faultSeq(inner.Referrers(ctx, repo, d, at), plan, c)
		},
	}
}

func faultSeq[T any](seq ociregistry.Seq[T], plan *FaultPlan, c *Call) ociregistry.Seq[T] {
	after, ferr := -1, error(nil)
	if plan.IterFailAfter != nil {
		after, ferr = plan.IterFailAfter(c)
	}
	if after < 0 {
		return seq
	}
	return func(yield func(T, error) bool) {
		n := 0
		stopped := false
		seq(func(x T, err error) bool {
			if err != nil {
				stopped = true
				return yield(x, err)
			}
			if n >= after {
				stopped = true
				plan.IterFaultsDelivered++
				plan.IterItemsBeforeFault = n
				yield(*new(T), ferr)
				return false
			}
			n++
			if !yield(x, nil) {
				stopped = true
				return false
			}
			return true
		})
		if !stopped && n <= after {
			// the listing ended before the fault position: deliver the error at the end
			plan.IterFaultsDelivered++
			plan.IterItemsBeforeFault = n
			yield(*new(T), ferr)
		}
	}
}
