package reg

import (
	"bytes"
	"crypto/sha256"
	"crypto/sha512"
	"encoding/hex"
	"encoding/json"
	"errors"
	"fmt"
	"sort"
	"strings"

	"cuelabs.dev/go/oci/ociregistry"
)

// The reference registry ("refreg"). Semantics are transcribed from the property
// statements and from the doc comments of ociregistry/interface.go - not from
// ocimem. Every place where the statements leave a grey zone is a named,
// narrow relaxation (see DESIGN.md 4.7).

const (
	MTImageManifest = "application/vnd.oci.image.manifest.v1+json"
	MTImageIndex    = "application/vnd.oci.image.index.v1+json"
)

type MManifest struct {
	MT      string
	Data    []byte
	Subject ociregistry.Digest
	// Refs are the digests the manifest references, by the media type it is stored
	// under (what a puller would fetch).
	BlobRefs []ociregistry.Digest
	ManRefs  []ociregistry.Digest
}

type MTag struct {
	Digest   ociregistry.Digest
	MT       string
	Dangling bool
}

type MUpload struct {
	Repo      string
	Buf       []byte
	Check     int64 // pending start-offset check (-1: none)
	Dead      bool  // cancelled
	Refused   bool  // a commit was refused: later commits may go on being refused, or not
	Committed bool
}

type MRepo struct {
	Blobs     map[ociregistry.Digest][]byte
	Manifests map[ociregistry.Digest]*MManifest
	Tags      map[string]*MTag
}

func (r *MRepo) hasContent() bool {
	return r != nil && (len(r.Blobs) > 0 || len(r.Manifests) > 0 || len(r.Tags) > 0)
}

type Model struct {
	ImmutableTags bool
	// StrictCodes: failures must carry the documented error codes (direct use of
	// the in-memory registry). When false only success/failure is predicted.
	StrictCodes bool
	// ReferrersOrdered: a Referrers listing must come in ascending order of digest.
	// The Interface documents an order for repositories and tags only; for referrers
	// it is C05 (and, for the unifier, C15) that promise one, so only their checks set
	// this. Everywhere else a Referrers listing is compared as a set.
	ReferrersOrdered bool
	// Deferred: BlobWriter errors may surface at a later call of the same writer
	// (a buffering client); sizes reported by a writer may include buffered bytes.
	Deferred bool
	// Concurrent: other tasks may act between a writer's Write and its Size call.
	Concurrent bool
	Repos      map[string]*MRepo
	Named      map[string]bool // every repository name a write was ever attempted on
	Uploads    map[int]*MUpload
}

func NewModel(immutableTags bool) *Model {
	return &Model{ImmutableTags: immutableTags, StrictCodes: true,
		Repos: map[string]*MRepo{}, Named: map[string]bool{}, Uploads: map[int]*MUpload{}}
}

func (m *Model) Clone() *Model {
	n := &Model{ImmutableTags: m.ImmutableTags, StrictCodes: m.StrictCodes, Deferred: m.Deferred, Concurrent: m.Concurrent, ReferrersOrdered: m.ReferrersOrdered,
		Repos: make(map[string]*MRepo, len(m.Repos)), Named: make(map[string]bool, len(m.Named)),
		Uploads: make(map[int]*MUpload, len(m.Uploads))}
	for k, r := range m.Repos {
		nr := &MRepo{Blobs: make(map[ociregistry.Digest][]byte, len(r.Blobs)),
			Manifests: make(map[ociregistry.Digest]*MManifest, len(r.Manifests)),
			Tags:      make(map[string]*MTag, len(r.Tags))}
		for d, b := range r.Blobs {
			nr.Blobs[d] = b
		}
		for d, mm := range r.Manifests {
			nr.Manifests[d] = mm // immutable once created
		}
		for t, tg := range r.Tags {
			c := *tg
			nr.Tags[t] = &c
		}
		n.Repos[k] = nr
	}
	for k, v := range m.Named {
		n.Named[k] = v
	}
	for k, u := range m.Uploads {
		c := *u
		n.Uploads[k] = &c
	}
	return n
}

// Canon returns a canonical encoding of the observable state.
func (m *Model) Canon() string {
	var sb strings.Builder
	names := make([]string, 0, len(m.Repos))
	for n, r := range m.Repos {
		if r.hasContent() {
			names = append(names, n)
		}
	}
	sort.Strings(names)
	for _, n := range names {
		r := m.Repos[n]
		sb.WriteString(n)
		sb.WriteString("{b:")
		ds := make([]string, 0, len(r.Blobs))
		for d := range r.Blobs {
			ds = append(ds, string(d))
		}
		sort.Strings(ds)
		sb.WriteString(strings.Join(ds, ","))
		sb.WriteString(" m:")
		ds = ds[:0]
		for d, mm := range r.Manifests {
			ds = append(ds, string(d)+"="+mm.MT)
		}
		sort.Strings(ds)
		sb.WriteString(strings.Join(ds, ","))
		sb.WriteString(" t:")
		ds = ds[:0]
		for t, tg := range r.Tags {
			ds = append(ds, fmt.Sprintf("%s=%s/%v", t, tg.Digest, tg.Dangling))
		}
		sort.Strings(ds)
		sb.WriteString(strings.Join(ds, ","))
		sb.WriteString("}")
	}
	us := make([]string, 0, len(m.Uploads))
	for h, u := range m.Uploads {
		us = append(us, fmt.Sprintf("u%d:%d/%d/%v/%v/%v", h, len(u.Buf), u.Check, u.Dead, u.Refused, u.Committed))
	}
	sort.Strings(us)
	sb.WriteString(strings.Join(us, ","))
	return sb.String()
}

// ---- independent validators (hand-written scanners, not ociref) ----

func isLowerAlnum(c byte) bool { return ('a' <= c && c <= 'z') || ('0' <= c && c <= '9') }

// ValidRepo: path-component ("/" path-component)*, where
// path-component = alnum+ (separator alnum+)*, separator = "." | "_" | "__" | "-"+ .
func ValidRepo(s string) bool {
	if s == "" {
		return false
	}
	for _, comp := range strings.Split(s, "/") {
		if !validComponent(comp) {
			return false
		}
	}
	return true
}

func validComponent(c string) bool {
	i := 0
	n := len(c)
	alnum := func() bool {
		j := i
		for i < n && isLowerAlnum(c[i]) {
			i++
		}
		return i > j
	}
	if !alnum() {
		return false
	}
	for i < n {
		switch {
		case c[i] == '.':
			i++
		case c[i] == '_':
			i++
			if i < n && c[i] == '_' {
				i++
			}
		case c[i] == '-':
			for i < n && c[i] == '-' {
				i++
			}
		default:
			return false
		}
		if !alnum() {
			return false
		}
	}
	return true
}

// ValidTag: [A-Za-z0-9_][A-Za-z0-9_.-]{0,127}
func ValidTag(s string) bool {
	if len(s) == 0 || len(s) > 128 {
		return false
	}
	for i := 0; i < len(s); i++ {
		c := s[i]
		word := c == '_' || ('a' <= c && c <= 'z') || ('A' <= c && c <= 'Z') || ('0' <= c && c <= '9')
		if word {
			continue
		}
		if i > 0 && (c == '.' || c == '-') {
			continue
		}
		return false
	}
	return true
}

// ValidDigest: a registered algorithm with a lower-case hex encoding of its length.
func ValidDigest(s string) bool {
	alg, hexpart, ok := strings.Cut(s, ":")
	if !ok {
		return false
	}
	var want int
	switch alg {
	case "sha256":
		want = 64
	case "sha384":
		want = 96
	case "sha512":
		want = 128
	default:
		return false
	}
	if len(hexpart) != want {
		return false
	}
	for i := 0; i < len(hexpart); i++ {
		c := hexpart[i]
		if !(('0' <= c && c <= '9') || ('a' <= c && c <= 'f')) {
			return false
		}
	}
	return true
}

// Sum computes the digest of data under the algorithm named by alg.
func Sum(alg string, data []byte) ociregistry.Digest {
	switch alg {
	case "sha512":
		h := sha512.Sum512(data)
		return ociregistry.Digest("sha512:" + hex.EncodeToString(h[:]))
	case "sha384":
		h := sha512.Sum384(data)
		return ociregistry.Digest("sha384:" + hex.EncodeToString(h[:]))
	default:
		h := sha256.Sum256(data)
		return ociregistry.Digest("sha256:" + hex.EncodeToString(h[:]))
	}
}

func Sha256(data []byte) ociregistry.Digest { return Sum("sha256", data) }

func algOf(d ociregistry.Digest) string {
	a, _, _ := strings.Cut(string(d), ":")
	return a
}

// ---- manifest parsing (independent of ocimem) ----

type jsonDesc struct {
	MediaType string `json:"mediaType"`
	Digest    string `json:"digest"`
	Size      int64  `json:"size"`
}

type jsonManifest struct {
	Config    jsonDesc   `json:"config"`
	Layers    []jsonDesc `json:"layers"`
	Manifests []jsonDesc `json:"manifests"`
	Subject   *jsonDesc  `json:"subject"`
}

// parseRefs returns what a manifest of media type mt references. ok=false: the
// content is not well-formed for that type.
func parseRefs(mt string, data []byte) (blobs, mans []ociregistry.Digest, subject ociregistry.Digest, ok bool) {
	if mt != MTImageManifest && mt != MTImageIndex {
		return nil, nil, "", true
	}
	var jm jsonManifest
	if err := json.Unmarshal(data, &jm); err != nil {
		return nil, nil, "", false
	}
	if mt == MTImageManifest {
		for _, l := range jm.Layers {
			blobs = append(blobs, ociregistry.Digest(l.Digest))
		}
		blobs = append(blobs, ociregistry.Digest(jm.Config.Digest))
	} else {
		for _, c := range jm.Manifests {
			mans = append(mans, ociregistry.Digest(c.Digest))
		}
	}
	if jm.Subject != nil {
		subject = ociregistry.Digest(jm.Subject.Digest)
	}
	return blobs, mans, subject, true
}

// ---- step function ----

func (m *Model) repo(name string) *MRepo { return m.Repos[name] }

func (m *Model) mkRepo(name string) *MRepo {
	r := m.Repos[name]
	if r == nil {
		r = &MRepo{Blobs: map[ociregistry.Digest][]byte{}, Manifests: map[ociregistry.Digest]*MManifest{}, Tags: map[string]*MTag{}}
		m.Repos[name] = r
	}
	return r
}

func is(err error, targets ...ociregistry.Error) bool {
	for _, t := range targets {
		if errors.Is(err, t) {
			return true
		}
	}
	return false
}

// wantFail checks that res failed, with one of the given codes when codes are strict.
func (m *Model) wantFail(err error, what string, codes ...ociregistry.Error) (bool, string) {
	if err == nil {
		return false, what + ": expected failure, got success"
	}
	if m.StrictCodes && len(codes) > 0 && !is(err, codes...) {
		var cs []string
		for _, c := range codes {
			cs = append(cs, c.Code())
		}
		return false, fmt.Sprintf("%s: expected error code %s, got %s (%s)", what, strings.Join(cs, " or "), CodeOf(err), firstLine(err.Error()))
	}
	return true, ""
}

// missing returns the codes allowed when something is absent from repo name.
func (m *Model) missing(name string, specific ociregistry.Error) []ociregistry.Error {
	if m.repo(name).hasContent() {
		return []ociregistry.Error{specific}
	}
	// "A repository that holds no content may be reported either as unknown or as empty."
	return []ociregistry.Error{specific, ociregistry.ErrNameUnknown}
}

// closure returns the digests reachable from the tags of r: strict follows
// layers/config/child manifests with matching kinds; loose additionally follows
// subject edges and ignores kinds.
func (r *MRepo) closure() (strictBlobs, strictMans, loose map[ociregistry.Digest]bool) {
	strictBlobs, strictMans, loose = map[ociregistry.Digest]bool{}, map[ociregistry.Digest]bool{}, map[ociregistry.Digest]bool{}
	var walk func(d ociregistry.Digest, strict bool)
	seenS, seenL := map[ociregistry.Digest]bool{}, map[ociregistry.Digest]bool{}
	walk = func(d ociregistry.Digest, strict bool) {
		if strict {
			if seenS[d] {
				return
			}
			seenS[d] = true
			strictMans[d] = true
		} else if seenL[d] {
			return
		}
		seenL[d] = true
		loose[d] = true
		mm := r.Manifests[d]
		if mm == nil {
			return
		}
		for _, b := range mm.BlobRefs {
			loose[b] = true
			if strict {
				strictBlobs[b] = true
			}
		}
		for _, c := range mm.ManRefs {
			walk(c, strict)
		}
		if mm.Subject != "" {
			walk(mm.Subject, false)
		}
	}
	for _, tg := range r.Tags {
		walk(tg.Digest, true)
	}
	// The implementation may follow references under the media type a referrer claims
	// for a manifest, or under a type the manifest had earlier; anything reachable
	// under any OCI interpretation of any reachable manifest is in the loose set (it
	// may be protected, it need not be).
	var walkLoose func(d ociregistry.Digest)
	seenAny := map[ociregistry.Digest]bool{}
	walkLoose = func(d ociregistry.Digest) {
		if seenAny[d] {
			return
		}
		seenAny[d] = true
		loose[d] = true
		mm := r.Manifests[d]
		if mm == nil {
			return
		}
		for _, mt := range []string{MTImageManifest, MTImageIndex} {
			bs, ms, sub, ok := parseRefs(mt, mm.Data)
			if !ok {
				continue
			}
			for _, x := range bs {
				loose[x] = true
				walkLoose(x)
			}
			for _, x := range ms {
				walkLoose(x)
			}
			if sub != "" {
				walkLoose(sub)
			}
		}
	}
	for _, tg := range r.Tags {
		walkLoose(tg.Digest)
	}
	return
}

func descOK(d ociregistry.Descriptor, dig ociregistry.Digest, size int) string {
	if d.Digest != dig {
		return fmt.Sprintf("descriptor digest %s, want %s", d.Digest, dig)
	}
	if d.Size != int64(size) {
		return fmt.Sprintf("descriptor size %d, want %d", d.Size, size)
	}
	return ""
}

// Step checks res against the model's prediction for op and, when it is allowed,
// applies op's effect. It returns ok=false with an explanation otherwise; the model
// is unchanged in that case.
func (m *Model) Step(op *Op, res *Res) (bool, string) {
	switch op.Kind {
	case GetBlob, ResolveBlob, GetBlobRange:
		r := m.repo(op.Repo)
		var data []byte
		found := false
		if r != nil {
			data, found = r.Blobs[op.Digest]
		}
		if !found {
			return m.wantFail(res.Err, op.Kind.String()+" of absent blob", m.missing(op.Repo, ociregistry.ErrBlobUnknown)...)
		}
		if op.Kind == GetBlobRange {
			return m.checkRange(op, res, data)
		}
		if res.Err != nil {
			return false, fmt.Sprintf("%s of present blob failed: %s", op.Kind, firstLine(res.Err.Error()))
		}
		if s := descOK(res.Desc, op.Digest, len(data)); s != "" {
			return false, s
		}
		if op.Kind == GetBlob {
			return checkBytes(res, data, op.Digest)
		}
		return true, ""
	case GetManifest, ResolveManifest:
		r := m.repo(op.Repo)
		var mm *MManifest
		if r != nil {
			mm = r.Manifests[op.Digest]
		}
		if mm == nil {
			return m.wantFail(res.Err, op.Kind.String()+" of absent manifest", m.missing(op.Repo, ociregistry.ErrManifestUnknown)...)
		}
		if res.Err != nil {
			return false, fmt.Sprintf("%s of present manifest failed: %s", op.Kind, firstLine(res.Err.Error()))
		}
		if s := descOK(res.Desc, op.Digest, len(mm.Data)); s != "" {
			return false, s
		}
		if res.Desc.MediaType != mm.MT {
			return false, fmt.Sprintf("manifest media type %q, want %q", res.Desc.MediaType, mm.MT)
		}
		if op.Kind == GetManifest {
			return checkBytes(res, mm.Data, op.Digest)
		}
		return true, ""
	case GetTag, ResolveTag:
		r := m.repo(op.Repo)
		var tg *MTag
		if r != nil {
			tg = r.Tags[op.Tag]
		}
		if tg == nil {
			return m.wantFail(res.Err, op.Kind.String()+" of absent tag", m.missing(op.Repo, ociregistry.ErrManifestUnknown)...)
		}
		mm := r.Manifests[tg.Digest]
		if mm == nil {
			// Dangling tag (its manifest was deleted, mutable mode): resolve may succeed
			// with that digest or fail; it must never produce other content.
			if res.Err != nil {
				return true, ""
			}
			if res.Desc.Digest != tg.Digest {
				return false, fmt.Sprintf("dangling tag resolved to %s, it was bound to %s", res.Desc.Digest, tg.Digest)
			}
			if op.Kind == GetTag && Sha256(res.Data) != tg.Digest {
				return false, "dangling tag served bytes that do not hash to the digest it was bound to"
			}
			return true, ""
		}
		if res.Err != nil {
			return false, fmt.Sprintf("%s of present tag failed: %s", op.Kind, firstLine(res.Err.Error()))
		}
		if s := descOK(res.Desc, tg.Digest, len(mm.Data)); s != "" {
			return false, "tag " + op.Tag + ": " + s
		}
		if res.Desc.MediaType != mm.MT && res.Desc.MediaType != tg.MT {
			return false, fmt.Sprintf("tag media type %q, want %q", res.Desc.MediaType, mm.MT)
		}
		if op.Kind == GetTag {
			return checkBytes(res, mm.Data, tg.Digest)
		}
		return true, ""
	case PushBlob:
		return m.stepPushBlob(op, res)
	case MountBlob:
		m.Named[op.Repo] = true
		if !ValidRepo(op.Repo) {
			return m.wantFail(res.Err, "MountBlob into invalid name", ociregistry.ErrNameInvalid)
		}
		src := m.repo(op.Repo2)
		var data []byte
		found := false
		if src != nil {
			data, found = src.Blobs[op.Digest]
		}
		if !found {
			return m.wantFail(res.Err, "MountBlob of absent blob", m.missing(op.Repo2, ociregistry.ErrBlobUnknown)...)
		}
		if res.Err != nil {
			return false, "MountBlob of present blob failed: " + firstLine(res.Err.Error())
		}
		if res.Desc.Digest != op.Digest {
			return false, fmt.Sprintf("MountBlob descriptor digest %s, want %s", res.Desc.Digest, op.Digest)
		}
		if res.Desc.Size != 0 && res.Desc.Size != int64(len(data)) {
			return false, fmt.Sprintf("MountBlob descriptor size %d, want %d or 0", res.Desc.Size, len(data))
		}
		m.mkRepo(op.Repo).Blobs[op.Digest] = data
		return true, ""
	case PushManifest:
		return m.stepPushManifest(op, res)
	case DeleteBlob:
		r := m.repo(op.Repo)
		if _, ok := r.blobsGet(op.Digest); !ok {
			return m.wantFail(res.Err, "DeleteBlob of absent blob")
		}
		if m.ImmutableTags {
			sb, _, loose := r.closure()
			if sb[op.Digest] {
				return m.wantFail(res.Err, "DeleteBlob of a blob reachable from a tag", ociregistry.ErrDenied)
			}
			if loose[op.Digest] && res.Err != nil {
				return true, ""
			}
		}
		if res.Err != nil {
			return false, "DeleteBlob of present blob failed: " + firstLine(res.Err.Error())
		}
		delete(r.Blobs, op.Digest)
		return true, ""
	case DeleteManifest:
		r := m.repo(op.Repo)
		if r == nil || r.Manifests[op.Digest] == nil {
			return m.wantFail(res.Err, "DeleteManifest of absent manifest")
		}
		if m.ImmutableTags {
			_, sm, loose := r.closure()
			if sm[op.Digest] {
				return m.wantFail(res.Err, "DeleteManifest of a manifest reachable from a tag", ociregistry.ErrDenied)
			}
			if loose[op.Digest] && res.Err != nil {
				return true, ""
			}
		}
		if res.Err != nil {
			return false, "DeleteManifest of present manifest failed: " + firstLine(res.Err.Error())
		}
		delete(r.Manifests, op.Digest)
		for _, tg := range r.Tags {
			if tg.Digest == op.Digest {
				tg.Dangling = true
			}
		}
		return true, ""
	case DeleteTag:
		r := m.repo(op.Repo)
		if r == nil || r.Tags[op.Tag] == nil {
			return m.wantFail(res.Err, "DeleteTag of absent tag")
		}
		if m.ImmutableTags {
			return m.wantFail(res.Err, "DeleteTag in immutable-tags mode", ociregistry.ErrDenied)
		}
		if res.Err != nil {
			return false, "DeleteTag of present tag failed: " + firstLine(res.Err.Error())
		}
		delete(r.Tags, op.Tag)
		return true, ""
	case Repositories:
		var must, may []string
		for n, r := range m.Repos {
			if r.hasContent() {
				must = append(must, n)
			}
		}
		for n := range m.Named {
			if ValidRepo(n) {
				may = append(may, n)
			}
		}
		return checkListing(op, res.Items, res.ListErr, res.ExtraCalls, must, may)
	case Tags:
		r := m.repo(op.Repo)
		if !r.hasContent() {
			if res.ListErr != nil {
				if m.StrictCodes && !is(res.ListErr, ociregistry.ErrNameUnknown) {
					return false, "Tags of a repository without content failed with " + CodeOf(res.ListErr) + ", want NAME_UNKNOWN (or an empty list)"
				}
				if res.ExtraCalls > 0 {
					return false, "consumer called again after an error was delivered"
				}
				return true, ""
			}
			return checkListing(op, res.Items, res.ListErr, res.ExtraCalls, nil, nil)
		}
		var must, may []string
		for t, tg := range r.Tags {
			if tg.Dangling && r.Manifests[tg.Digest] == nil {
				may = append(may, t)
			} else {
				must = append(must, t)
			}
		}
		return checkListing(op, res.Items, res.ListErr, res.ExtraCalls, must, may)
	case Referrers:
		r := m.repo(op.Repo)
		if !r.hasContent() && res.ListErr != nil {
			if m.StrictCodes && !is(res.ListErr, ociregistry.ErrNameUnknown) {
				return false, "Referrers in a repository without content failed with " + CodeOf(res.ListErr)
			}
			return true, ""
		}
		if op.Digest == "" && res.ListErr != nil {
			return true, "" // not a digest at all: an error is as good an answer as "none"
		}
		var want []string
		byDig := map[string]*MManifest{}
		if r != nil {
			for d, mm := range r.Manifests {
				// (no manifest names the empty string as its subject: one without a
				// subject names none)
				if mm.Subject == op.Digest && op.Digest != "" {
					want = append(want, string(d))
					byDig[string(d)] = mm
				}
			}
		}
		var got []string
		for _, d := range res.Descs {
			got = append(got, string(d.Digest))
			if mm := byDig[string(d.Digest)]; mm != nil {
				if d.Size != int64(len(mm.Data)) || d.MediaType != mm.MT {
					return false, fmt.Sprintf("referrer %s described as {%d %q}, want {%d %q}", short(d.Digest), d.Size, d.MediaType, len(mm.Data), mm.MT)
				}
			}
		}
		if !m.ReferrersOrdered {
			return checkSetListing(op, got, res.ListErr, res.ExtraCalls, want)
		}
		return checkListing(op, got, res.ListErr, res.ExtraCalls, want, nil)
	case UpStart:
		m.Named[op.Repo] = true
		if !ValidRepo(op.Repo) {
			return m.wantFail(res.Err, "PushBlobChunked with invalid name", ociregistry.ErrNameInvalid)
		}
		if res.Err != nil {
			return false, "PushBlobChunked failed: " + firstLine(res.Err.Error())
		}
		if res.Size != 0 {
			return false, fmt.Sprintf("new upload reports size %d", res.Size)
		}
		m.Uploads[op.Handle] = &MUpload{Repo: op.Repo, Check: -1}
		return true, ""
	case UpResume:
		u := m.Uploads[op.Handle]
		if u == nil {
			return true, "" // never generated
		}
		if res.Err != nil {
			return false, "PushBlobChunkedResume of a live upload failed: " + firstLine(res.Err.Error())
		}
		if res.Size != int64(len(u.Buf)) && res.Size != op.Offset {
			return false, fmt.Sprintf("resumed writer reports size %d; the registry has %d bytes and the offset given was %d", res.Size, len(u.Buf), op.Offset)
		}
		u.Check = op.Offset
		return true, ""
	case UpWrite:
		u := m.Uploads[op.Handle]
		if u == nil {
			return true, ""
		}
		if u.Committed && res.Err != nil {
			// a session that has been committed may be over: whether it takes more data
			// is not something the statements settle (a refusal changes nothing)
			return true, ""
		}
		if u.Check != -1 && u.Check != int64(len(u.Buf)) {
			ok, why := m.wantFail(res.Err, fmt.Sprintf("Write at stale offset %d (registry has %d bytes)", u.Check, len(u.Buf)), ociregistry.ErrRangeInvalid)
			return ok, why
		}
		if res.Err != nil {
			return false, "Write at the right offset failed: " + firstLine(res.Err.Error())
		}
		if res.N != len(op.Data) {
			return false, fmt.Sprintf("Write returned %d for %d bytes", res.N, len(op.Data))
		}
		u.Check = -1
		u.Buf = append(append([]byte(nil), u.Buf...), op.Data...)
		if !m.Concurrent && res.Size != int64(len(u.Buf)) {
			return false, fmt.Sprintf("writer size %d after write, want %d", res.Size, len(u.Buf))
		}
		return true, ""
	case UpClose:
		if res.Err != nil {
			return false, "Close failed: " + firstLine(res.Err.Error())
		}
		return true, ""
	case UpSize:
		u := m.Uploads[op.Handle]
		if u != nil && res.Size != int64(len(u.Buf)) {
			return false, fmt.Sprintf("writer size %d, want %d", res.Size, len(u.Buf))
		}
		return true, ""
	case UpCancel:
		if res.Err != nil {
			return false, "Cancel failed: " + firstLine(res.Err.Error())
		}
		if u := m.Uploads[op.Handle]; u != nil {
			u.Dead = true
		}
		return true, ""
	case UpCommit:
		u := m.Uploads[op.Handle]
		if u == nil {
			return true, ""
		}
		if u.Dead {
			return m.wantFail(res.Err, "Commit of a cancelled upload")
		}
		if (u.Committed || u.Refused) && res.Err != nil {
			// committing a session a second time may be refused; so may any commit after
			// one that was refused (whether a refusal is the end of a session is not
			// something the statements settle)
			return true, ""
		}
		if !ValidDigest(string(op.Digest)) || Sum(algOf(op.Digest), u.Buf) != op.Digest {
			ok, why := m.wantFail(res.Err, "Commit with a digest that does not match the written bytes", ociregistry.ErrDigestInvalid)
			if ok {
				u.Refused = true
			}
			return ok, why
		}
		if algOf(op.Digest) != "sha256" && res.Err != nil {
			u.Refused = true
			return true, "" // non-canonical algorithm: may be refused
		}
		if res.Err != nil {
			return false, "Commit with the right digest failed: " + firstLine(res.Err.Error())
		}
		if s := descOK(res.Desc, op.Digest, len(u.Buf)); s != "" {
			return false, "Commit: " + s
		}
		m.mkRepo(u.Repo).Blobs[op.Digest] = u.Buf
		u.Committed = true
		return true, ""
	}
	return false, "unknown operation"
}

func (r *MRepo) blobsGet(d ociregistry.Digest) ([]byte, bool) {
	if r == nil {
		return nil, false
	}
	b, ok := r.Blobs[d]
	return b, ok
}

func checkBytes(res *Res, want []byte, dig ociregistry.Digest) (bool, string) {
	if res.ReadErr != nil {
		return false, "reading stored content failed: " + firstLine(res.ReadErr.Error())
	}
	if !bytes.Equal(res.Data, want) {
		return false, fmt.Sprintf("served %d bytes that differ from the %d bytes pushed", len(res.Data), len(want))
	}
	if ValidDigest(string(dig)) && Sum(algOf(dig), res.Data) != dig {
		return false, "served bytes do not hash to the requested digest"
	}
	return true, ""
}

func (m *Model) checkRange(op *Op, res *Res, data []byte) (bool, string) {
	size := int64(len(data))
	o0, o1 := op.O0, op.O1
	if o1 < 0 || o1 > size {
		o1 = size
	}
	degenerate := o0 < 0 || o0 >= o1
	if degenerate {
		// HTTP cannot express an empty or inverted range: error or the exact (empty)
		// slice, never other bytes.
		if res.Err != nil {
			return true, ""
		}
		if o0 >= 0 && o0 <= o1 {
			if res.ReadErr == nil && len(res.Data) == 0 {
				return true, ""
			}
		}
		if res.ReadErr != nil {
			return true, ""
		}
		return false, fmt.Sprintf("degenerate range [%d,%d) of a %d-byte blob returned %d bytes without error", op.O0, op.O1, size, len(res.Data))
	}
	if res.Err != nil {
		return false, fmt.Sprintf("range [%d,%d) of a %d-byte blob failed: %s", op.O0, op.O1, size, firstLine(res.Err.Error()))
	}
	if res.ReadErr != nil {
		return false, "reading a range failed: " + firstLine(res.ReadErr.Error())
	}
	if !bytes.Equal(res.Data, data[o0:o1]) {
		return false, fmt.Sprintf("range [%d,%d) of a %d-byte blob returned %d bytes that are not that slice", op.O0, op.O1, size, len(res.Data))
	}
	if s := descOK(res.Desc, op.Digest, len(data)); s != "" {
		return false, "range read must describe the whole blob: " + s
	}
	return true, ""
}

func (m *Model) stepPushBlob(op *Op, res *Res) (bool, string) {
	m.Named[op.Repo] = true
	if op.ContentFault >= 0 && op.ContentFault < len(op.Data) {
		// the content stream broke: the push must fail and store nothing
		return m.wantFail(res.Err, "PushBlob whose content reader failed")
	}
	var codes []ociregistry.Error
	if !ValidRepo(op.Repo) {
		codes = append(codes, ociregistry.ErrNameInvalid)
	}
	digOK := ValidDigest(string(op.Digest)) && Sum(algOf(op.Digest), op.Data) == op.Digest
	if !digOK {
		codes = append(codes, ociregistry.ErrDigestInvalid)
	}
	if op.DeclSize != int64(len(op.Data)) {
		codes = append(codes, ociregistry.ErrSizeInvalid)
	}
	if len(codes) > 0 {
		if digOK && algOf(op.Digest) != "sha256" {
			// a registry that stores only canonical digests reports this as a digest problem
			codes = append(codes, ociregistry.ErrDigestInvalid)
		}
		return m.wantFail(res.Err, "PushBlob that must be rejected", codes...)
	}
	if algOf(op.Digest) != "sha256" && res.Err != nil {
		return true, "" // non-canonical algorithm: may be refused
	}
	if res.Err != nil {
		return false, "valid PushBlob failed: " + firstLine(res.Err.Error())
	}
	if s := descOK(res.Desc, op.Digest, len(op.Data)); s != "" {
		return false, "PushBlob: " + s
	}
	m.mkRepo(op.Repo).Blobs[op.Digest] = op.Data
	return true, ""
}

func (m *Model) stepPushManifest(op *Op, res *Res) (bool, string) {
	m.Named[op.Repo] = true
	dig := Sha256(op.Data)
	if !ValidRepo(op.Repo) {
		return m.wantFail(res.Err, "PushManifest with invalid name", ociregistry.ErrNameInvalid)
	}
	if op.Tag != "" && !ValidTag(op.Tag) {
		return m.wantFail(res.Err, "PushManifest with invalid tag")
	}
	r := m.repo(op.Repo)
	if m.ImmutableTags && op.Tag != "" && r != nil {
		if tg := r.Tags[op.Tag]; tg != nil {
			if tg.Digest == dig && tg.MT == op.MediaType {
				if res.Err != nil {
					return false, "re-push of identical content under an existing tag failed: " + firstLine(res.Err.Error())
				}
				if s := descOK(res.Desc, dig, len(op.Data)); s != "" {
					return false, s
				}
				return true, ""
			}
			return m.wantFail(res.Err, "PushManifest over an existing tag in immutable-tags mode", ociregistry.ErrDenied)
		}
	}
	if m.ImmutableTags && r != nil && res.Err != nil {
		// In immutable-tags mode the media type of a manifest that a tag reaches may
		// be refused to change (it determines what the manifest references).
		if cur := r.Manifests[dig]; cur != nil && cur.MT != op.MediaType {
			if _, _, loose := r.closure(); loose[dig] {
				return true, ""
			}
		}
	}
	blobs, mans, subject, ok := parseRefs(op.MediaType, op.Data)
	if !ok {
		return m.wantFail(res.Err, "PushManifest of malformed JSON")
	}
	for _, b := range blobs {
		if _, found := r.blobsGet(b); !found {
			return m.wantFail(res.Err, "PushManifest referencing an absent blob")
		}
	}
	for _, c := range mans {
		if r == nil || r.Manifests[c] == nil {
			return m.wantFail(res.Err, "PushManifest referencing an absent manifest")
		}
	}
	if res.Err != nil {
		return false, "valid PushManifest failed: " + firstLine(res.Err.Error())
	}
	if s := descOK(res.Desc, dig, len(op.Data)); s != "" {
		return false, "PushManifest: " + s
	}
	if res.Desc.MediaType != op.MediaType {
		return false, fmt.Sprintf("PushManifest descriptor media type %q, want %q", res.Desc.MediaType, op.MediaType)
	}
	r = m.mkRepo(op.Repo)
	r.Manifests[dig] = &MManifest{MT: op.MediaType, Data: op.Data, Subject: subject, BlobRefs: blobs, ManRefs: mans}
	for _, tg := range r.Tags {
		if tg.Digest == dig {
			tg.Dangling = false
		}
	}
	if op.Tag != "" {
		r.Tags[op.Tag] = &MTag{Digest: dig, MT: op.MediaType}
	}
	return true, ""
}

// checkListing: got must be strictly ascending, strictly after op.Start, contain
// every element of must that is after Start (up to where a declining consumer
// stopped it), and nothing outside must ∪ may.
func checkListing(op *Op, got []string, lerr error, extra int, must, may []string) (bool, string) {
	if extra > 0 {
		return false, fmt.Sprintf("the iterator called its consumer %d more time(s) after it declined or after an error", extra)
	}
	if lerr != nil {
		return false, "listing ended with an error: " + CodeOf(lerr) + " " + firstLine(lerr.Error())
	}
	allowed := map[string]bool{}
	for _, x := range must {
		allowed[x] = true
	}
	for _, x := range may {
		allowed[x] = true
	}
	for i, x := range got {
		if i > 0 && got[i-1] >= x {
			return false, fmt.Sprintf("listing not strictly ascending: %q then %q", got[i-1], x)
		}
		if op.Start != "" && x <= op.Start {
			return false, fmt.Sprintf("listing after %q contains %q", op.Start, x)
		}
		if !allowed[x] {
			return false, fmt.Sprintf("listing contains %q which does not exist", x)
		}
	}
	stopped := op.StopAfter >= 0 && len(got) >= op.StopAfter
	if op.StopAfter >= 0 && len(got) > op.StopAfter {
		return false, fmt.Sprintf("consumer declined after %d items but received %d", op.StopAfter, len(got))
	}
	have := map[string]bool{}
	for _, x := range got {
		have[x] = true
	}
	sort.Strings(must)
	for _, x := range must {
		if op.Start != "" && x <= op.Start {
			continue
		}
		if have[x] {
			continue
		}
		if stopped && (len(got) == 0 || x > got[len(got)-1]) {
			continue // beyond the point where the consumer stopped
		}
		return false, fmt.Sprintf("listing after %q is missing %q (got %v)", op.Start, x, got)
	}
	return true, ""
}

// checkSetListing: a listing whose order is not promised. got must be want, each
// element once, or - when the consumer declined after k items - any k of them.
func checkSetListing(op *Op, got []string, lerr error, extra int, want []string) (bool, string) {
	if extra > 0 {
		return false, fmt.Sprintf("the iterator called its consumer %d more time(s) after it declined or after an error", extra)
	}
	if lerr != nil {
		return false, "listing ended with an error: " + CodeOf(lerr) + " " + firstLine(lerr.Error())
	}
	allowed := map[string]bool{}
	for _, x := range want {
		allowed[x] = true
	}
	seen := map[string]bool{}
	for _, x := range got {
		if !allowed[x] {
			return false, fmt.Sprintf("listing contains %q which does not exist", x)
		}
		if seen[x] {
			return false, fmt.Sprintf("listing contains %q twice", x)
		}
		seen[x] = true
	}
	n := len(want)
	if op.StopAfter >= 0 {
		if len(got) > op.StopAfter {
			return false, fmt.Sprintf("consumer declined after %d items but received %d", op.StopAfter, len(got))
		}
		n = min(n, op.StopAfter)
	}
	if len(got) < n {
		sort.Strings(want)
		return false, fmt.Sprintf("listing has %d of %d items (got %v, want %v)", len(got), len(want), got, want)
	}
	return true, ""
}

// WellFormed reports whether data is well-formed for media type mt (always true for
// media types the registry treats as opaque).
func WellFormed(mt string, data []byte) bool {
	_, _, _, ok := parseRefs(mt, data)
	return ok
}

// HasContent reports whether the named repository holds any blob, manifest or tag.
func (m *Model) HasContent(repo string) bool { return m.repo(repo).hasContent() }
