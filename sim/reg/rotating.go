package reg

import (
	"context"
	"fmt"
	"sync"

	"cuelabs.dev/go/oci/ociregistry"
)

// RotatingIDs returns a registry like inner whose upload sessions change their id
// whenever data has gone in: after a Write and the Close that follows, BlobWriter.ID
// gives a new id, and the one the session was known by before is refused as unknown
// (registries that keep upload state in the upload URL behave like this; the
// BlobWriter interface says an id is "only valid before Write has been called or after
// Close has been called").
func RotatingIDs(inner ociregistry.Interface) *Rotating {
	return &Rotating{Interface: inner, cur: map[string]*rotSession{}, old: map[string]bool{}}
}

type Rotating struct {
	ociregistry.Interface
	mu  sync.Mutex
	cur map[string]*rotSession // by the id a session is known by now
	old map[string]bool        // ids that sessions were known by earlier
	// Superseded lists the resumptions that named an id a session no longer has.
	Superseded []string
}

type rotSession struct {
	innerID string
	gen     int
}

func (s *rotSession) public() string { return fmt.Sprintf("%s~%d", s.innerID, s.gen) }

func (r *Rotating) PushBlobChunked(ctx context.Context, repo string, chunkSize int) (ociregistry.BlobWriter, error) {
	w, err := r.Interface.PushBlobChunked(ctx, repo, chunkSize)
	if err != nil {
		return nil, err
	}
	s := &rotSession{innerID: w.ID()}
	r.mu.Lock()
	r.cur[s.public()] = s
	r.mu.Unlock()
	return &rotWriter{BlobWriter: w, r: r, s: s}, nil
}

func (r *Rotating) PushBlobChunkedResume(ctx context.Context, repo, id string, offset int64, chunkSize int) (ociregistry.BlobWriter, error) {
	r.mu.Lock()
	s := r.cur[id]
	if s == nil && r.old[id] {
		r.Superseded = append(r.Superseded, id)
	}
	r.mu.Unlock()
	if s == nil {
		return nil, ociregistry.NewError("no upload is known by this id (any more)", ociregistry.ErrBlobUploadUnknown.Code(), nil)
	}
	w, err := r.Interface.PushBlobChunkedResume(ctx, repo, s.innerID, offset, chunkSize)
	if err != nil {
		return nil, err
	}
	return &rotWriter{BlobWriter: w, r: r, s: s}, nil
}

type rotWriter struct {
	ociregistry.BlobWriter
	r     *Rotating
	s     *rotSession
	dirty bool
}

func (w *rotWriter) Write(p []byte) (int, error) {
	n, err := w.BlobWriter.Write(p)
	if n > 0 {
		w.dirty = true
	}
	return n, err
}

func (w *rotWriter) Close() error {
	err := w.BlobWriter.Close()
	if w.dirty {
		w.dirty = false
		w.r.mu.Lock()
		delete(w.r.cur, w.s.public())
		w.r.old[w.s.public()] = true
		w.s.gen++
		w.r.cur[w.s.public()] = w.s
		w.r.mu.Unlock()
	}
	return err
}

func (w *rotWriter) ID() string {
	w.r.mu.Lock()
	defer w.r.mu.Unlock()
	return w.s.public()
}
