// Package simnet is the simulated network: an in-process http.RoundTripper that
// delivers requests to an http.Handler (a real ociserver, a scripted adversarial
// peer, a fake registry or token server) and owns every network fault.
//
// It models what net/http guarantees and what handlers and clients rely on; the
// sockets, framing and connection management of the real transport and server are
// the stub (DESIGN.md 2 and 4.5).
package simnet

import (
	"bytes"
	"context"
	"errors"
	"fmt"
	"io"
	"net/http"
	"strconv"
	"strings"
	"time"

	"verifsim/core"
)

type FaultKind int

const (
	NoFault FaultKind = iota
	DropRequest
	DropResponse
	Duplicate        // peer processes the request twice; caller sees the first answer
	DuplicateSecond  // ... caller sees the second answer
	TruncateRequest  // peer's body reader yields K bytes then ErrUnexpectedEOF; response lost
	TruncateResponse // response body ends with ErrUnexpectedEOF after K bytes
	CancelBefore     // caller's context is cancelled before the peer runs
	CancelAfter      // ... after the peer ran (response lost)
	Delay            // fake-clock sleep of D before the peer runs
	// StaleResponse: the request is lost and what the caller reads is a duplicate of
	// the previous response on this connection (a duplicated response on a
	// keep-alive connection is read as the answer to the next request). Without a
	// previous response it is a lost request.
	StaleResponse
)

var faultNames = [...]string{"none", "drop-request", "drop-response", "duplicate", "duplicate-second", "truncate-request", "truncate-response", "cancel-before", "cancel-after", "delay", "stale-response"}

func (k FaultKind) String() string { return faultNames[k] }

type Fault struct {
	Kind FaultKind
	K    int           // byte position for truncations
	D    time.Duration // delay
}

// Exchange is one recorded request/response pair.
type Exchange struct {
	Seq        int
	Method     string
	URL        string
	Host       string
	Header     http.Header
	BodyLen    int
	Body       []byte
	Status     int
	RespHeader http.Header
	Fault      FaultKind
	Err        string
}

var ErrConn = errors.New("simnet: connection failed")

type Transport struct {
	Env *core.Env
	// Handler serves every host unless Hosts has an entry for the request's host.
	Handler http.Handler
	Hosts   map[string]http.Handler
	// Plan decides the fault for an exchange (nil: none). It is called once per
	// RoundTrip, before the peer runs, and must draw only from Env.C.
	Plan func(req *http.Request) Fault
	// Mutate may rewrite the response before the caller sees it (corrupting
	// middlebox). It must keep the response wire-feasible.
	Mutate func(req *http.Request, resp *Response)
	// Record keeps every exchange.
	Record bool
	Log    []*Exchange
	// Buggify: legal-but-unusual behaviours, fixed per run.
	OneByteReads bool // request and response bodies are delivered one byte per Read
	EOFWithData  bool // the final Read returns (n, io.EOF) together
	KeepBodies   bool // keep request bodies in the log
	// LazyBody: the request body is handed to the peer as a stream and is consumed only
	// as far as the peer reads it (what "Expect: 100-continue" gives a real client).
	LazyBody bool
	// MaxExchanges bounds the number of requests per run (default 3000).
	MaxExchanges int
	Name         string
	// OmitRequest leaves Response.Request nil (see requestFor).
	OmitRequest bool
	// LastWire is the wire-level form of the most recent response.
	LastWire *Response
	// Observe, if set, sees every request (with its body) before the peer does.
	Observe func(req *http.Request, body []byte)
	seq     int
	// Cancel, when set, is used by the Cancel* faults to cancel the caller's context.
	Cancel context.CancelFunc
}

// Response is the wire-level response before it is turned into an *http.Response.
type Response struct {
	Status int
	Header http.Header
	Body   []byte
	// DeclaredLen is the Content-Length the peer declared (-1: none).
	DeclaredLen int64
	// BodyErr, if non-nil, ends the body instead of io.EOF.
	BodyErr error
	// RawContentLength overrides the ContentLength the client sees (when a middlebox
	// rewrote the header); only used when SetRawCL is true.
	RawContentLength int64
	SetRawCL         bool
	// Excess: the handler tried to write more than the Content-Length it declared.
	Excess bool
	// WroteHeader: the handler called WriteHeader/Write itself (false: implicit 200).
	WroteHeader bool
}

type noValues struct{ context.Context }

func (noValues) Value(any) any { return nil }

// simRW models net/http's ResponseWriter as far as handlers can observe it.
type simRW struct {
	hdr      http.Header
	snap     http.Header
	status   int
	wrote    bool
	body     bytes.Buffer
	declared int64
	head     bool
	excess   bool
	explicit bool
}

func (w *simRW) Header() http.Header { return w.hdr }

func (w *simRW) WriteHeader(code int) {
	if w.wrote {
		return // net/http logs "superfluous WriteHeader" and ignores it
	}
	if code >= 100 && code < 200 {
		return // informational responses are not modelled
	}
	w.wrote = true
	w.status = code
	w.snap = w.hdr.Clone()
	w.declared = -1
	if cl := w.snap.Get("Content-Length"); cl != "" {
		if n, err := strconv.ParseInt(cl, 10, 64); err == nil && n >= 0 {
			w.declared = n
		} else {
			w.snap.Del("Content-Length") // net/http drops an invalid value
		}
	}
}

func bodyAllowed(status int) bool {
	switch {
	case status >= 100 && status <= 199:
		return false
	case status == 204, status == 304:
		return false
	}
	return true
}

func (w *simRW) Write(p []byte) (int, error) {
	if !w.wrote {
		w.WriteHeader(200)
	}
	if !bodyAllowed(w.status) {
		return 0, http.ErrBodyNotAllowed
	}
	if w.head {
		return len(p), nil // net/http discards the body of a HEAD response
	}
	if w.declared >= 0 && int64(w.body.Len()+len(p)) > w.declared {
		room := w.declared - int64(w.body.Len())
		if room > 0 {
			w.body.Write(p[:room])
		}
		w.excess = true
		return int(room), http.ErrContentLength
	}
	w.body.Write(p)
	return len(p), nil
}

func (w *simRW) Flush() {}

type bodyReader struct {
	data     []byte
	pos      int
	endErr   error // returned instead of io.EOF at the end
	oneByte  bool
	eofWith  bool
	closed   bool
	onClose  func()
	consumed *bool
}

func (b *bodyReader) Read(p []byte) (int, error) {
	if b.consumed != nil {
		*b.consumed = true
	}
	if b.closed {
		return 0, errors.New("simnet: read on closed body")
	}
	if len(p) == 0 {
		return 0, nil
	}
	if b.pos >= len(b.data) {
		if b.endErr != nil {
			return 0, b.endErr
		}
		return 0, io.EOF
	}
	n := len(p)
	if b.oneByte {
		n = 1
	}
	if n > len(b.data)-b.pos {
		n = len(b.data) - b.pos
	}
	copy(p, b.data[b.pos:b.pos+n])
	b.pos += n
	if b.pos >= len(b.data) && b.eofWith && b.endErr == nil {
		return n, io.EOF
	}
	return n, nil
}

func (b *bodyReader) Close() error {
	if !b.closed {
		b.closed = true
		if b.onClose != nil {
			b.onClose()
		}
	}
	return nil
}

// lazyReader streams the caller's request body to the peer.
type lazyReader struct {
	src     io.Reader
	limit   int64 // declared Content-Length (<= 0: unknown)
	n       int64
	truncAt int
	oneByte bool
}

func (l *lazyReader) Read(p []byte) (int, error) {
	if len(p) == 0 {
		return 0, nil
	}
	if l.truncAt >= 0 && l.n >= int64(l.truncAt) {
		return 0, io.ErrUnexpectedEOF
	}
	if l.limit > 0 && l.n >= l.limit {
		return 0, io.EOF
	}
	if l.oneByte {
		p = p[:1]
	}
	if l.limit > 0 && int64(len(p)) > l.limit-l.n {
		p = p[:l.limit-l.n]
	}
	if l.truncAt >= 0 && int64(len(p)) > int64(l.truncAt)-l.n {
		p = p[:int64(l.truncAt)-l.n]
	}
	n, err := l.src.Read(p)
	l.n += int64(n)
	if err == io.EOF && l.limit > 0 && l.n < l.limit {
		return n, io.ErrUnexpectedEOF
	}
	return n, err
}

func (l *lazyReader) Close() error { return nil }

func (t *Transport) yield() {
	if t.Env != nil && t.Env.Sched != nil {
		t.Env.Sched.Yield()
	}
}

func (t *Transport) sleep(d time.Duration) {
	if t.Env != nil && t.Env.Sched != nil && d > 0 {
		t.Env.Sched.Sleep(d)
	}
}

// RoundTrip implements http.RoundTripper.
func (t *Transport) RoundTrip(req *http.Request) (*http.Response, error) {
	t.seq++
	max := t.MaxExchanges
	if max == 0 {
		max = 3000
	}
	if t.seq > max && t.Env != nil {
		// No simulated run legitimately needs this many requests on one transport: the
		// caller is looping without progress (for instance a pager that is served the
		// same page again and again).
		t.Env.Failf("runaway-requests/"+req.Method, "more than %d requests on one transport in a single run; the latest is %s %s", max, req.Method, req.URL)
	}
	ex := &Exchange{Seq: t.seq, Method: req.Method, URL: req.URL.String(), Host: req.URL.Host, Header: req.Header.Clone()}
	if t.Record {
		t.Log = append(t.Log, ex)
	}
	closeBody := func() {
		if req.Body != nil {
			req.Body.Close()
		}
	}
	fail := func(err error) (*http.Response, error) {
		closeBody()
		ex.Err = err.Error()
		return nil, err
	}
	if err := req.Context().Err(); err != nil {
		return fail(err)
	}
	var f Fault
	if t.Plan != nil {
		f = t.Plan(req)
	}
	ex.Fault = f.Kind
	if f.Kind != NoFault && t.Env != nil {
		t.Env.Fault(f.Kind.String())
	}

	// The request body as the client would put it on the wire.
	var body []byte
	hasBody := req.Body != nil && req.Body != http.NoBody
	lazy := t.LazyBody && hasBody && f.Kind != Duplicate && f.Kind != DuplicateSecond
	if hasBody && !lazy {
		// net/http's transport reads the body when it sends the request (after
		// 100-continue when the client asked for it; every ociclient request with a
		// body does). The peer decides whether it reads it; the bytes are the same.
		b, err := io.ReadAll(req.Body)
		if err != nil {
			return fail(fmt.Errorf("simnet: reading request body: %w", err))
		}
		if req.ContentLength > 0 && int64(len(b)) != req.ContentLength {
			// net/http: "http: ContentLength=N with Body length M"
			return fail(fmt.Errorf("simnet: ContentLength=%d with Body length %d", req.ContentLength, len(b)))
		}
		body = b
	}
	if !lazy {
		closeBody()
	}
	ex.BodyLen = len(body)
	if t.Observe != nil {
		t.Observe(req, body)
	}
	if t.KeepBodies {
		ex.Body = body
	}

	t.yield()
	if f.Kind == Delay {
		t.sleep(f.D)
	}
	if f.Kind == CancelBefore && t.Cancel != nil {
		t.Cancel()
		return fail(context.Canceled)
	}
	if err := req.Context().Err(); err != nil {
		return fail(err)
	}
	if f.Kind == DropRequest || (f.Kind == StaleResponse && t.LastWire == nil) {
		return fail(fmt.Errorf("%w: request lost", ErrConn))
	}
	if f.Kind == StaleResponse {
		if lazy {
			closeBody()
		}
		prev := t.LastWire
		wr := &Response{Status: prev.Status, Header: prev.Header.Clone(), Body: prev.Body, DeclaredLen: prev.DeclaredLen, BodyErr: prev.BodyErr}
		ex.Status = wr.Status
		ex.RespHeader = wr.Header.Clone()
		return t.build(req, wr), nil
	}

	h := t.Handler
	if hh, ok := t.Hosts[req.URL.Host]; ok {
		h = hh
	}
	if h == nil {
		return fail(fmt.Errorf("%w: no such host %q", ErrConn, req.URL.Host))
	}

	serve := func(truncAt int) *simRW {
		sctx := noValues{req.Context()}
		u := *req.URL
		u.Scheme, u.Host, u.User = "", "", nil
		sreq := (&http.Request{
			Method:     req.Method,
			URL:        &u,
			Proto:      "HTTP/1.1",
			ProtoMajor: 1,
			ProtoMinor: 1,
			Header:     req.Header.Clone(),
			Host:       req.URL.Host,
			RequestURI: u.RequestURI(),
			RemoteAddr: "192.0.2.1:1234",
		}).WithContext(sctx)
		if req.Host != "" {
			sreq.Host = req.Host
		}
		if !hasBody {
			sreq.Body = http.NoBody
			sreq.ContentLength = 0
		} else {
			if lazy {
				sreq.Body = &lazyReader{src: req.Body, limit: req.ContentLength, truncAt: truncAt, oneByte: t.OneByteReads}
			} else {
				br := &bodyReader{data: body, oneByte: t.OneByteReads, eofWith: t.EOFWithData}
				if truncAt >= 0 && truncAt < len(body) {
					br.data = body[:truncAt]
					br.endErr = io.ErrUnexpectedEOF
				}
				sreq.Body = br
			}
			switch {
			case req.ContentLength > 0:
				sreq.ContentLength = req.ContentLength
			case req.ContentLength == 0 && (len(body) > 0 || lazy):
				sreq.ContentLength = -1 // unknown length: chunked on the wire
				sreq.TransferEncoding = []string{"chunked"}
			case req.ContentLength < 0:
				sreq.ContentLength = -1
				sreq.TransferEncoding = []string{"chunked"}
			default:
				sreq.ContentLength = 0
			}
			if sreq.ContentLength >= 0 {
				sreq.Header.Set("Content-Length", strconv.FormatInt(sreq.ContentLength, 10))
			}
		}
		rw := &simRW{hdr: http.Header{}, head: req.Method == "HEAD"}
		h.ServeHTTP(rw, sreq)
		rw.explicit = rw.wrote
		if !rw.wrote {
			rw.WriteHeader(200)
		}
		return rw
	}

	if lazy {
		defer closeBody()
	}
	var rw *simRW
	switch f.Kind {
	case TruncateRequest:
		serve(f.K)
		t.yield()
		return fail(fmt.Errorf("%w: connection broke while sending the request body", ErrConn))
	case Duplicate:
		rw = serve(-1)
		t.yield()
		serve(-1)
	case DuplicateSecond:
		serve(-1)
		t.yield()
		rw = serve(-1)
	default:
		rw = serve(-1)
	}
	t.yield()
	if f.Kind == DropResponse {
		return fail(fmt.Errorf("%w: response lost", ErrConn))
	}
	if f.Kind == CancelAfter && t.Cancel != nil {
		t.Cancel()
		return fail(context.Canceled)
	}
	if err := req.Context().Err(); err != nil {
		return fail(err)
	}

	wr := &Response{Status: rw.status, Header: rw.snap, Body: rw.body.Bytes(), DeclaredLen: rw.declared, Excess: rw.excess, WroteHeader: rw.explicit}
	t.LastWire = wr
	if wr.Header == nil {
		wr.Header = http.Header{}
	}
	// What net/http adds.
	if _, ok := wr.Header["Content-Type"]; !ok && len(wr.Body) > 0 && bodyAllowed(wr.Status) {
		wr.Header.Set("Content-Type", http.DetectContentType(wr.Body))
	}
	if wr.DeclaredLen >= 0 && int64(len(wr.Body)) < wr.DeclaredLen && req.Method != "HEAD" && bodyAllowed(wr.Status) {
		wr.BodyErr = io.ErrUnexpectedEOF // the handler wrote less than it declared
	}
	if f.Kind == TruncateResponse && f.K < len(wr.Body) {
		wr.Body = wr.Body[:f.K]
		wr.BodyErr = io.ErrUnexpectedEOF
	}
	if t.Mutate != nil {
		t.Mutate(req, wr)
	}
	ex.Status = wr.Status
	ex.RespHeader = wr.Header.Clone()
	return t.build(req, wr), nil
}

// requestFor: what the Response's Request field holds. net/http's own transport sets
// it; the RoundTripper contract does not demand it, and in-process adapters built on
// httptest.ResponseRecorder leave it nil (OmitRequest).
func (t *Transport) requestFor(req *http.Request) *http.Request {
	if t.OmitRequest {
		return nil
	}
	return req
}

// build turns a wire-level response into what net/http's client transport would hand
// to its caller.
func (t *Transport) build(req *http.Request, wr *Response) *http.Response {
	statusText := http.StatusText(wr.Status)
	if statusText == "" {
		statusText = "status code " + strconv.Itoa(wr.Status) // what net/http's server writes for codes without a text
	}
	resp := &http.Response{
		Status:     fmt.Sprintf("%d %s", wr.Status, statusText),
		StatusCode: wr.Status,
		Proto:      "HTTP/1.1",
		ProtoMajor: 1,
		ProtoMinor: 1,
		Header:     wr.Header.Clone(),
		Request:    t.requestFor(req),
	}
	body := wr.Body
	noBody := req.Method == "HEAD" || !bodyAllowed(wr.Status)
	if noBody {
		body = nil
	}
	switch {
	case wr.SetRawCL:
		resp.ContentLength = wr.RawContentLength
	case wr.DeclaredLen >= 0:
		resp.ContentLength = wr.DeclaredLen
	case noBody:
		if req.Method == "HEAD" {
			resp.ContentLength = -1
		} else {
			resp.ContentLength = 0
		}
	case len(body) <= 2048 && wr.BodyErr == nil:
		// net/http sets Content-Length itself when the whole body fits its buffer
		resp.ContentLength = int64(len(body))
		resp.Header.Set("Content-Length", strconv.Itoa(len(body)))
	default:
		resp.ContentLength = -1
		resp.TransferEncoding = []string{"chunked"}
	}
	endErr := wr.BodyErr
	if resp.ContentLength >= 0 && !noBody {
		// A body framed by Content-Length: the client reads at most that many bytes;
		// fewer on the wire is an unexpected EOF.
		if int64(len(body)) > resp.ContentLength {
			body = body[:resp.ContentLength]
			endErr = nil
		} else if int64(len(body)) < resp.ContentLength && endErr == nil {
			endErr = io.ErrUnexpectedEOF
		}
	}
	if noBody {
		resp.Body = http.NoBody
	} else {
		resp.Body = &bodyReader{data: body, endErr: endErr, oneByte: t.OneByteReads, eofWith: t.EOFWithData}
	}
	if strings.EqualFold(resp.Header.Get("Connection"), "close") {
		resp.Close = true
	}
	return resp
}

// Seq returns the number of requests this transport has been asked to carry.
func (t *Transport) Seq() int { return t.seq }
