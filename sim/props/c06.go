package props

import (
	"bytes"
	"context"
	"encoding/base64"
	"encoding/json"
	"errors"
	"fmt"
	"io"
	"net/http"
	"net/url"
	"slices"
	"strconv"
	"strings"

	"cuelabs.dev/go/oci/ociregistry"
	"cuelabs.dev/go/oci/ociregistry/ocimem"
	"cuelabs.dev/go/oci/ociregistry/ociserver"

	"verifsim/core"
	"verifsim/reg"
	"verifsim/simnet"
)

// C06: the server is total and protocol-conformant on arbitrary HTTP requests.
//
// The request-shape sweep is input generation (stated as such in DESIGN.md); the
// simulation-specific content is the fault plan (backend error at call k, backend
// reader failing mid-stream, request body breaking mid-stream, cancelled
// context) and the monitors: every backend call is validated by independent
// scanners, and every reader/writer the server obtained from its backend must be
// closed when ServeHTTP returns.
func init() {
	core.Components["C06"] = [2][]string{
		{"ociserver (all handlers)", "internal/ocirequest (request classifier)", "ociref validators", "ociregistry error marshalling", "ocimem as backend", "ociregistry.Funcs as partially populated backend"},
		{"net/http server: simnet.Transport calls the handler in-process with a modelled ResponseWriter", "backend faults: reg.Wrap"}}
	core.Rules["C06"] = "one evaluation = one simulated session of 5-40 generated/mutated HTTP requests against one ociserver handler over a populated backend with a seeded fault plan; distinct = distinct sequence of (method, path template, mutation, status, fault) tokens; non-trivial = at least one request reached the handler"
	core.Assumptions["C06"] = []string{
		"the code->status table is the one ociregistry documents (MarshalError); an independent copy is compared",
		"header requirements per endpoint are checked on a healthy backend only; under backend faults only totality, error-body shape, argument validity and the close-everything clause are claimed",
	}
	register(&core.Scenario{Name: "c06-healthy", Property: "C06", Weight: 3, Run: func(env *core.Env) { c06(env, "healthy") }})
	register(&core.Scenario{Name: "c06-faulty-backend", Property: "C06", Weight: 3, Run: func(env *core.Env) { c06(env, "faulty") }})
	register(&core.Scenario{Name: "c06-partial-funcs", Property: "C06", Weight: 1, Run: func(env *core.Env) { c06(env, "partial") }})
}

var codeStatus = map[string]int{
	"BLOB_UNKNOWN": 404, "BLOB_UPLOAD_INVALID": 416, "BLOB_UPLOAD_UNKNOWN": 404, "DIGEST_INVALID": 400,
	"MANIFEST_BLOB_UNKNOWN": 404, "MANIFEST_INVALID": 400, "MANIFEST_UNKNOWN": 404, "NAME_INVALID": 400,
	"NAME_UNKNOWN": 404, "SIZE_INVALID": 400, "UNAUTHORIZED": 401, "DENIED": 403, "UNSUPPORTED": 400,
	"TOOMANYREQUESTS": 429, "RANGE_INVALID": 416,
}

// partialFuncs returns a Funcs backend with a seeded subset of its functions set.
func partialFuncs(c *core.Choices, inner ociregistry.Interface) ociregistry.Interface {
	f := &ociregistry.Funcs{}
	on := func(name string) bool { return c.Bool("funcs."+name, 1, 2) }
	if on("GetBlob") {
		f.GetBlob_ = inner.GetBlob
	}
	if on("GetBlobRange") {
		f.GetBlobRange_ = inner.GetBlobRange
		if c.Bool("funcs.GetBlobRange.lax", 1, 2) {
			// a backend that does not police ranges itself (as ociclient against a
			// registry without range support): where the in-memory registry refuses
			// the range, this one hands over a reader on the whole blob
			f.GetBlobRange_ = func(ctx context.Context, repo string, dig ociregistry.Digest, o0, o1 int64) (ociregistry.BlobReader, error) {
				rd, err := inner.GetBlobRange(ctx, repo, dig, o0, o1)
				var oe ociregistry.Error
				if err != nil && !errors.As(err, &oe) {
					return inner.GetBlob(ctx, repo, dig)
				}
				return rd, err
			}
		}
	}
	if on("GetManifest") {
		f.GetManifest_ = inner.GetManifest
	}
	if on("GetTag") {
		f.GetTag_ = inner.GetTag
	}
	if on("ResolveBlob") {
		f.ResolveBlob_ = inner.ResolveBlob
	}
	if on("ResolveManifest") {
		f.ResolveManifest_ = inner.ResolveManifest
	}
	if on("ResolveTag") {
		f.ResolveTag_ = inner.ResolveTag
	}
	if on("PushBlob") {
		f.PushBlob_ = inner.PushBlob
	}
	// upload ids are opaque to the server: a backend may hand out any string
	oddID := ""
	useOddID := c.Bool("funcs.odd-upload-id", 1, 3)
	if useOddID {
		oddID = []string{"", "\xff\xfe\x00", "id?with=query&x", "id with spaces/and/slashes", "../..", strings.Repeat("x", 3000)}[c.Int("funcs.odd-upload-id.which", 6)]
	}
	odd := func(w ociregistry.BlobWriter, err error) (ociregistry.BlobWriter, error) {
		if err != nil || !useOddID {
			return w, err
		}
		return oddIDWriter{w, oddID}, nil
	}
	if on("PushBlobChunked") {
		f.PushBlobChunked_ = func(ctx context.Context, repo string, chunkSize int) (ociregistry.BlobWriter, error) {
			return odd(inner.PushBlobChunked(ctx, repo, chunkSize))
		}
	}
	if on("PushBlobChunkedResume") {
		f.PushBlobChunkedResume_ = func(ctx context.Context, repo, id string, offset int64, chunkSize int) (ociregistry.BlobWriter, error) {
			return odd(inner.PushBlobChunkedResume(ctx, repo, id, offset, chunkSize))
		}
	}
	if on("MountBlob") {
		f.MountBlob_ = inner.MountBlob
	}
	if on("PushManifest") {
		f.PushManifest_ = inner.PushManifest
	}
	if on("DeleteBlob") {
		f.DeleteBlob_ = inner.DeleteBlob
	}
	if on("DeleteManifest") {
		f.DeleteManifest_ = inner.DeleteManifest
	}
	if on("DeleteTag") {
		f.DeleteTag_ = inner.DeleteTag
	}
	if on("Repositories") {
		f.Repositories_ = inner.Repositories
	}
	if on("Tags") {
		f.Tags_ = inner.Tags
	}
	if on("Referrers") {
		f.Referrers_ = inner.Referrers
	}
	return f
}

func c06(env *core.Env, mode string) {
	c := env.C
	ctx := context.Background()
	mem := ocimem.NewWithConfig(&ocimem.Config{ImmutableTags: c.Bool("immutable", 1, 4)})
	// populate
	repos := pickSome(c, "repos", repoNames, 1, 3)
	var blobDigests, manDigests []string
	blobData := map[string][]byte{}
	for _, r := range repos {
		for i := 0; i < c.Range("nblobs", 0, 2); i++ {
			data := c.Bytes("blob", []int{0, 1, 5, 100, 40000}[c.Int("bloblen", 5)])
			d := reg.Sha256(data)
			if _, err := mem.PushBlob(ctx, r, ociregistry.Descriptor{Digest: d, Size: int64(len(data)), MediaType: "application/octet-stream"}, bytes.NewReader(data)); err != nil {
				core.Harnessf("populate: %v", err)
			}
			blobDigests = append(blobDigests, string(d))
			blobData[string(d)] = data
		}
		for i := 0; i < c.Range("nmans", 0, 2); i++ {
			data := []byte(fmt.Sprintf(`{"m":%d}`, c.Int("man", 1<<20)))
			tag := ""
			if c.Bool("tagged", 1, 2) {
				tag = tagNames[c.Int("tag", len(tagNames))]
			}
			desc, err := mem.PushManifest(ctx, r, tag, data, "application/x-verif.opaque")
			if err != nil && !strings.Contains(err.Error(), "denied") {
				core.Harnessf("populate: %v", err)
			}
			if err == nil {
				manDigests = append(manDigests, string(desc.Digest))
			}
		}
	}
	// backend with monitors and faults
	tracker := reg.NewTracker()
	var plan *reg.FaultPlan
	faulty := mode == "faulty"
	stdErrs := reg.StdErrors
	if faulty {
		rate := c.Range("backend.rate", 2, 8)
		plan = &reg.FaultPlan{
			CallErr: func(call *reg.Call) error {
				if !c.Bool("backend.fail?", 1, rate) {
					return nil
				}
				env.Fault("backend-call-error")
				switch c.Int("backend.errkind", 6) {
				case 5:
					// a failure inside the backend that has a cancellation or a deadline of
					// the backend's own at its root (a shared fetch abandoned by whoever
					// started it, an internal timeout): this request's context is alive and
					// its client is waiting for an answer
					return fmt.Errorf("shared fetch abandoned: %w", []error{context.Canceled, context.DeadlineExceeded}[c.Int("backend.ctxerr", 2)])
				case 4:
					// an error that carries a detail: well-formed JSON, or whatever a careless
					// backend put there
					detail := []string{`{"k":[1,2]}`, `"s"`, `not json`, `{`, "\xff\xfe", `{"a":1}}`, ` `}[c.Int("backend.detail", 7)]
					return ociregistry.NewError("backend says no", stdErrs[c.Int("backend.std", len(stdErrs))].Code(), json.RawMessage(detail))
				case 0:
					return stdErrs[c.Int("backend.std", len(stdErrs))]
				case 1:
					return fmt.Errorf("wrapped: %w", stdErrs[c.Int("backend.std", len(stdErrs))])
				case 2:
					if c.Bool("backend.status.odd", 1, 6) {
						// a status that is no failure status at all (what a client-backed
						// backend reports when its upstream answers oddly)
						return ociregistry.NewHTTPError(fmt.Errorf("odd upstream"), []int{0, 99, 100, 200, 204, 304, 399, 600, 999, 1000, -1}[c.Int("backend.status.oddv", 11)], nil, nil)
					}
					return ociregistry.NewHTTPError(fmt.Errorf("teapot"), 400+c.Int("backend.status", 200), nil, nil)
				}
				return fmt.Errorf("plain backend failure")
			},
			ReaderFailAt: func(call *reg.Call) int {
				if c.Bool("backend.readfail?", 1, rate) {
					env.Fault("backend-reader-fails")
					return c.Int("backend.readfail.at", 50)
				}
				return -1
			},
			IterFailAfter: func(call *reg.Call) (int, error) {
				if c.Bool("backend.iterfail?", 1, rate) {
					env.Fault("backend-iterator-fails")
					return c.Int("backend.iterfail.at", 3), fmt.Errorf("listing broke")
				}
				return -1, nil
			},
			WriterFaults: func(call *reg.Call) (bool, bool) {
				if c.Bool("backend.writerfail?", 1, rate) {
					env.Fault("backend-writer-fails")
					return c.Bool("w", 1, 2), c.Bool("c", 1, 2)
				}
				return false, false
			},
		}
	}
	var backend ociregistry.Interface = mem
	// a backend may give an upload a new id whenever data has gone in; where the upload
	// goes on is what its writer says afterwards
	var rot *reg.Rotating
	if c.Bool("backend.rotating-upload-ids", 1, 4) {
		rot = reg.RotatingIDs(mem)
		backend = rot
		env.Probe("c06:backend-rotates-upload-ids")
	}
	if mode == "partial" {
		backend = partialFuncs(c, backend)
	}
	backend = reg.Wrap(backend, tracker, plan)
	opts := &ociserver.Options{
		DisableReferrersAPI:          c.Bool("noreferrers", 1, 6),
		DisableSinglePostUpload:      c.Bool("nosinglepost", 1, 4),
		OmitDigestFromTagGetResponse: c.Bool("omitdigest", 1, 4),
		OmitLinkHeaderFromResponses:  c.Bool("omitlink", 1, 4),
	}
	if c.Bool("maxpage", 1, 4) {
		opts.MaxListPageSize = c.Range("maxpage.n", 1, 3)
	}
	switch c.Int("locations", 5) {
	case 1:
		opts.LocationsForDescriptor = func(isManifest bool, desc ociregistry.Descriptor) ([]string, error) {
			// (where the thing can be fetched depends on what it is)
			return []string{"http://cdn.example/" + map[bool]string{true: "manifests", false: "blobs"}[isManifest] + "/" + string(desc.Digest)}, nil
		}
	case 2:
		opts.LocationsForDescriptor = func(isManifest bool, desc ociregistry.Descriptor) ([]string, error) {
			return nil, nil
		}
	case 3:
		opts.LocationsForDescriptor = func(isManifest bool, desc ociregistry.Descriptor) ([]string, error) {
			return nil, fmt.Errorf("no location known")
		}
	}
	if c.Bool("uploadlocation", 1, 5) {
		opts.LocationForUploadID = func(id string) (string, error) { return "http://uploads.example/u/" + id, nil }
	}
	handler := ociserver.New(backend, opts)
	cctx, cancel := context.WithCancel(ctx)
	defer cancel()
	tr := &simnet.Transport{Env: env, Handler: handler, OneByteReads: c.Bool("onebyte", 1, 10), EOFWithData: c.Bool("eofdata", 1, 4)}
	nextFault := simnet.Fault{}
	tr.Plan = func(*http.Request) simnet.Fault { f := nextFault; nextFault = simnet.Fault{}; return f }

	var uploadIDs []string
	nreq := c.Range("nreq", 5, 40)
	env.Sample("mode=%s repos=%v blobs=%d manifests=%d opts=%+v requests=%d", mode, repos, len(blobDigests), len(manDigests), *opts, nreq)

	pickRepo := func() (string, string) {
		switch c.Weighted("repo", []int{8, 2, 2}) {
		case 0:
			return repos[c.Int("repo.i", len(repos))], "repo"
		case 1:
			return repoNames[c.Int("repo.other", len(repoNames))], "otherrepo"
		}
		return badRepoNames[c.Int("repo.bad", len(badRepoNames))], "badrepo"
	}
	pickDigest := func(pool []string) (string, string) {
		switch c.Weighted("digest", []int{6, 2, 3}) {
		case 0:
			if len(pool) > 0 {
				return pool[c.Int("digest.i", len(pool))], "digest"
			}
			fallthrough
		case 1:
			return string(reg.Sha256(c.Bytes("digest.unknown", 4))), "unknowndigest"
		}
		return []string{"", "sha256:", "sha256:abc", "sha256:" + strings.Repeat("Z", 64), "md5:d41d8cd98f00b204e9800998ecf8427e", "sha256", "sha512:" + strings.Repeat("a", 128), ":", "sha256:" + strings.Repeat("a", 63)}[c.Int("digest.bad", 9)], "baddigest"
	}
	pickTag := func() (string, string) {
		switch c.Weighted("tag", []int{6, 4}) {
		case 0:
			return tagNames[c.Int("tag.i", len(tagNames))], "tag"
		}
		return []string{"", ".", "-x", "a b", strings.Repeat("t", 129), "x/y", "é", "..", "%"}[c.Int("tag.bad", 9)], "badtag"
	}
	pickUpload := func() (string, string) {
		switch c.Weighted("upload", []int{6, 2, 2}) {
		case 0:
			if len(uploadIDs) > 0 {
				return base64.RawURLEncoding.EncodeToString([]byte(uploadIDs[c.Int("upload.i", len(uploadIDs))])), "upload"
			}
			fallthrough
		case 1:
			return base64.RawURLEncoding.EncodeToString(c.Bytes("upload.unknown", 6)), "unknownupload"
		}
		return []string{"", "!!!", "a=b", "====", "/"}[c.Int("upload.bad", 5)], "badupload"
	}

	for i := 0; i < nreq; i++ {
		method := []string{"GET", "HEAD", "PUT", "POST", "PATCH", "DELETE", "OPTIONS", "FOO"}[c.Weighted("method", []int{8, 4, 5, 5, 4, 4, 1, 1})]
		var path, tmpl string
		q := url.Values{}
		var body []byte
		hdr := http.Header{}
		repo, repoClass := pickRepo()
		var wantDigest string
		switch c.Weighted("template", []int{1, 1, 2, 8, 5, 6, 8, 3, 3, 2}) {
		case 0:
			path, tmpl = []string{"/v2", "/v2/"}[c.Int("ping", 2)], "ping"
		case 1:
			path, tmpl = []string{"/", "", "/v1/foo", "/v2//", "/v2/x", "/v2/a/b", "/v2/foo/blobs", "/v2/foo/blobs/", "/v2/foo/unknown/x", "/v3/"}[c.Int("junk", 10)], "junk"
		case 2:
			path, tmpl = "/v2/_catalog", "catalog"
		case 3:
			d, dc := pickDigest(blobDigests)
			wantDigest = d
			path, tmpl = "/v2/"+repo+"/blobs/"+d, "blob/"+repoClass+"/"+dc
			if c.Bool("range", 1, 3) {
				n := len(blobData[d]) // (0 for a digest the registry does not hold)
				hdr.Set("Range", []string{"bytes=0-", "bytes=0-0", "bytes=1-2", "bytes=5-1", "bytes=-5", "bytes=9999999-", "bytes=0-0,2-3", "bits=0-1", "bytes=a-b", "bytes=0-99999999999999999999", "", "bytes=", "bytes=2-",
					// at, just before and just past the end of this very blob; the largest numbers that still are numbers
					fmt.Sprintf("bytes=%d-", n), fmt.Sprintf("bytes=%d-", max(n-1, 0)), fmt.Sprintf("bytes=%d-%d", n, n), fmt.Sprintf("bytes=0-%d", n), fmt.Sprintf("bytes=%d-", n+1),
					"bytes=0-9223372036854775807", "bytes=0-9223372036854775806", "bytes=9223372036854775807-", "bytes=-0", "bytes=-9223372036854775807"}[c.Int("range.v", 23)])
			}
		case 4:
			path, tmpl = "/v2/"+repo+"/blobs/uploads"+[]string{"/", ""}[c.Int("upl.slash", 2)], "uploads/"+repoClass
			if c.Bool("upl.digest", 1, 3) {
				d, _ := pickDigest(nil)
				body = c.Bytes("upl.body", c.Range("upl.len", 0, 30))
				if c.Bool("upl.right", 2, 3) {
					d = string(reg.Sha256(body))
				}
				q.Set("digest", d)
			}
			if c.Bool("upl.mount", 1, 4) {
				d, _ := pickDigest(blobDigests)
				q.Set("mount", d)
				if c.Bool("upl.from", 3, 4) {
					fr, _ := pickRepo()
					q.Set("from", fr)
				}
			}
		case 5:
			id, ic := pickUpload()
			path, tmpl = "/v2/"+repo+"/blobs/uploads/"+id, "upload/"+repoClass+"/"+ic
			body = c.Bytes("chunk", c.Range("chunk.len", 0, 40))
			if c.Bool("cr", 2, 3) {
				hdr.Set("Content-Range", []string{"0-" + strconv.Itoa(len(body)-1), "0-0", "5-9", "1-0", "x-y", "-", "0-", "10-5", "0-99999999999999999999", fmt.Sprintf("%d-%d", len(body), 2*len(body)-1)}[c.Int("cr.v", 10)])
			}
			if method == "PUT" || c.Bool("put.digest", 1, 4) {
				d := string(reg.Sha256(body))
				if c.Bool("put.wrong", 1, 3) {
					d, _ = pickDigest(nil)
				}
				q.Set("digest", d)
			}
		case 6:
			var ref, rc string
			if c.Bool("bytag", 1, 2) {
				ref, rc = pickTag()
			} else {
				ref, rc = pickDigest(manDigests)
				wantDigest = ref
			}
			path, tmpl = "/v2/"+repo+"/manifests/"+ref, "manifest/"+repoClass+"/"+rc
			if method == "PUT" {
				body = []byte(fmt.Sprintf(`{"put":%d}`, c.Int("putman", 1<<20)))
				switch c.Int("putman.kind", 4) {
				case 1:
					body = []byte(`{"schemaVersion":2,"config":{"mediaType":"x","digest":"` + string(reg.Sha256(nil)) + `","size":0},"layers":[]}`)
					hdr.Set("Content-Type", reg.MTImageManifest)
				case 2:
					body = []byte(`{"schemaVersion":2,"layers":[`)
					hdr.Set("Content-Type", reg.MTImageIndex)
				case 3:
					hdr.Set("Content-Type", "application/x-verif.opaque")
				}
				if rc == "digest" || rc == "unknowndigest" {
					if c.Bool("putman.rightdigest", 2, 3) {
						path = "/v2/" + repo + "/manifests/" + string(reg.Sha256(body))
					}
				}
			}
		case 7:
			path, tmpl = "/v2/"+repo+"/tags/list", "tags/"+repoClass
		case 8:
			d, dc := pickDigest(manDigests)
			path, tmpl = "/v2/"+repo+"/referrers/"+d, "referrers/"+repoClass+"/"+dc
		case 9:
			path, tmpl = "/v2/"+repo+"/"+[]string{"blobs", "manifests", "tags", "referrers", "uploads", "blobs/uploads"}[c.Int("short", 6)], "short/"+repoClass
		}
		if strings.HasPrefix(tmpl, "catalog") || strings.HasPrefix(tmpl, "tags") || c.Bool("listq", 1, 10) {
			if c.Bool("q.n", 1, 2) {
				q.Set("n", []string{"", "0", "1", "2", "-1", "abc", "99999999999999999999", "1000", " 1"}[c.Int("q.n.v", 9)])
			}
			if c.Bool("q.last", 1, 3) {
				q.Set("last", []string{"", "a", "zzz", "a b&c", "%zz"}[c.Int("q.last.v", 5)])
			}
		}
		mut := "none"
		if c.Bool("mutate", 1, 6) && len(path) > 0 {
			switch c.Int("mutation", 6) {
			case 0:
				path, mut = path+"/", "trailing-slash"
			case 1:
				path, mut = strings.Replace(path, "/", "//", 1+c.Int("mut.n", 2)), "double-slash"
			case 2:
				path, mut = strings.ToUpper(path[:len(path)/2])+path[len(path)/2:], "upper"
			case 3:
				path, mut = path[:len(path)-1], "drop-last"
			case 4:
				path, mut = path+"/"+strings.Repeat("a/", 140)+"x", "very-long"
			case 5:
				path, mut = strings.Replace(path, "/v2/", "/v2/./", 1), "dot-segment"
			}
		}
		rawq := q.Encode()
		if c.Bool("badquery", 1, 25) {
			rawq = []string{"%zz", "a=%", ";;;", "n=1;last=2"}[c.Int("badquery.v", 4)]
		}
		u := &url.URL{Scheme: "http", Host: "sim.example", Path: path, RawQuery: rawq}
		var rbody io.ReadCloser
		clen := int64(0)
		if len(body) > 0 || (method != "GET" && method != "HEAD" && method != "DELETE" && c.Bool("emptybody", 1, 2)) {
			rbody = io.NopCloser(bytes.NewReader(body))
			clen = int64(len(body))
			if c.Bool("chunked", 1, 5) {
				clen = -1
			}
		}
		req := (&http.Request{Method: method, URL: u, Header: hdr, Body: rbody, ContentLength: clen, Host: "sim.example"}).WithContext(cctx)
		// network-side faults for this exchange
		netFault := "none"
		if faulty && len(body) > 1 && c.Bool("net.truncate?", 1, 8) {
			nextFault = simnet.Fault{Kind: simnet.TruncateRequest, K: c.Int("net.truncate.at", len(body))}
			netFault = "truncate-request"
		}
		tracker.Reset()
		resp, err := tr.RoundTrip(req)
		wire := tr.LastWire
		status := 0
		if wire != nil && netFault == "none" {
			status = wire.Status
		}
		env.Op(fmt.Sprintf("%s %s %s %d %s", method, tmpl, mut, status/100, netFault))
		env.Logf("%s %s?%s %v [%s] -> %d (err %v)", method, path, rawq, hdr, netFault, status, err)
		env.Sample("%s %s?%s hdr=%v body=%dB -> %d", method, path, rawq, hdr, len(body), status)
		class := func(k string) string { return "C06/" + k + "/" + method + "/" + strings.SplitN(tmpl, "/", 2)[0] }

		// monitors that hold under every fault
		for _, call := range tracker.Calls {
			if call.Method != "Repositories" && !reg.ValidRepo(call.Repo) {
				env.Failf(class("backend-invalid-repo"), "%s %s caused backend call %s with an invalid repository name", method, path, call)
			}
			if call.Method == "MountBlob" && !reg.ValidRepo(call.Repo2) {
				env.Failf(class("backend-invalid-repo"), "%s %s?%s caused backend call %s with an invalid source repository", method, path, rawq, call)
			}
			if call.Tag != "" && !reg.ValidTag(call.Tag) {
				env.Failf(class("backend-invalid-tag"), "%s %s caused backend call %s with an invalid tag", method, path, call)
			}
			if (call.Method == "GetTag" || call.Method == "ResolveTag" || call.Method == "DeleteTag") && call.Tag == "" {
				env.Failf(class("backend-invalid-tag"), "%s %s caused backend call %s with an empty tag", method, path, call)
			}
			needsDigest := call.Method == "GetBlob" || call.Method == "GetBlobRange" || call.Method == "GetManifest" || call.Method == "ResolveBlob" || call.Method == "ResolveManifest" || call.Method == "DeleteBlob" || call.Method == "DeleteManifest" || call.Method == "MountBlob" || call.Method == "Referrers" || call.Method == "PushBlob"
			if needsDigest && !reg.ValidDigest(string(call.Digest)) {
				env.Failf(class("backend-invalid-digest"), "%s %s?%s caused backend call %s with an invalid digest", method, path, rawq, call)
			}
		}
		for _, what := range tracker.Open {
			env.Failf(class("backend-handle-left-open"), "%s %s: when ServeHTTP returned the server had not closed the %s", method, path, what)
		}
		if err != nil || wire == nil {
			continue // the exchange was broken by the network fault; nothing reached the client
		}
		rbytes, rerr := io.ReadAll(resp.Body)
		resp.Body.Close()
		// learn upload ids
		if loc := wire.Header.Get("Location"); loc != "" && strings.Contains(loc, "/blobs/uploads/") {
			seg := loc[strings.LastIndex(loc, "/")+1:]
			if i := strings.IndexByte(seg, '?'); i >= 0 {
				seg = seg[:i]
			}
			if b, err := base64.RawURLEncoding.DecodeString(seg); err == nil && len(uploadIDs) < 6 {
				uploadIDs = append(uploadIDs, string(b))
			}
		}
		// The Location of an upload response is where the upload goes on: asked about it
		// straight away, the backend is named a session as it knows it now, not one of its
		// earlier ids.
		if loc := wire.Header.Get("Location"); rot != nil && (status == 202 || status == 204) && strings.Contains(loc, "/blobs/uploads/") && opts.LocationForUploadID == nil {
			if lu, perr := url.Parse(loc); perr == nil && (lu.Host == "" || lu.Host == "sim.example") {
				before := len(rot.Superseded)
				lu.Scheme, lu.Host = "http", "sim.example"
				freq := (&http.Request{Method: "GET", URL: lu, Header: http.Header{}, Host: "sim.example"}).WithContext(cctx)
				if fresp, ferr := tr.RoundTrip(freq); ferr == nil {
					io.Copy(io.Discard, fresp.Body)
					fresp.Body.Close()
				}
				env.Probe("c06:upload-location-followed")
				if len(rot.Superseded) > before {
					env.Failf(class("location-of-a-superseded-upload-id"), "%s %s?%s answered %d with Location %q; asked about that location at once, the backend was named upload id %q, which its writer had replaced when the data went in", method, path, rawq, status, loc, rot.Superseded[before])
				}
			}
		}
		if status >= 400 {
			if method == "HEAD" {
				continue
			}
			var we struct {
				Errors []struct {
					Code    string          `json:"code"`
					Message string          `json:"message"`
					Detail  json.RawMessage `json:"detail"`
				} `json:"errors"`
			}
			if jerr := json.Unmarshal(rbytes, &we); jerr != nil || len(we.Errors) == 0 {
				env.Failf(class("error-body-not-oci-json"), "%s %s?%s answered %d with a body that is not an OCI error document: %q", method, path, rawq, status, rbytes)
			}
			if ct := wire.Header.Get("Content-Type"); !strings.HasPrefix(ct, "application/json") {
				env.Failf(class("error-body-content-type"), "%s %s answered %d with Content-Type %q", method, path, status, ct)
			}
			for _, e := range we.Errors {
				if want, ok := codeStatus[e.Code]; ok && want != status {
					env.Failf(class("status-disagrees-with-code"), "%s %s?%s answered %d with error code %s (which maps to %d)", method, path, rawq, status, e.Code, want)
				}
				if e.Code == "" {
					env.Failf(class("error-without-code"), "%s %s answered %d with an error entry without code", method, path, status)
				}
			}
			continue
		}
		if status/100 == 3 {
			if wire.Header.Get("Location") == "" {
				env.Failf(class("redirect-without-location"), "%s %s answered %d without a Location header", method, path, status)
			}
			continue
		}
		// successes
		if wire.Excess {
			env.Failf(class("content-length-exceeded"), "%s %s: the handler wrote more than the Content-Length it declared (%d)", method, path, wire.DeclaredLen)
		}
		// Whatever the backend did: a success is one of the statuses its endpoint has, and
		// carries the headers that go with it (they are sent before the first body byte;
		// a backend that fails later can break the body, not the headers).
		lenient := faulty || mode == "partial"
		if ok := map[string][]int{
			"blob GET": {200, 206}, "blob HEAD": {200}, "blob DELETE": {202},
			"manifest GET": {200}, "manifest HEAD": {200}, "manifest PUT": {201}, "manifest DELETE": {202},
			"uploads POST": {201, 202}, "upload PATCH": {202}, "upload GET": {204}, "upload PUT": {201},
			"catalog GET": {200}, "tags GET": {200}, "referrers GET": {200}, "ping GET": {200},
		}[strings.SplitN(tmpl, "/", 2)[0]+" "+method]; ok != nil && !slices.Contains(ok, status) {
			env.Failf(class("success-status-of-another-endpoint"), "%s %s?%s answered %d, which is not a success status of that endpoint (%v)", method, path, rawq, status, ok)
		}
		if !lenient && rerr != nil {
			env.Failf(class("content-length-short"), "%s %s answered %d but the body ended early (declared %d, wrote %d): %v", method, path, status, wire.DeclaredLen, len(wire.Body), rerr)
		}
		if !lenient && wire.DeclaredLen >= 0 && method != "HEAD" && int64(len(rbytes)) != wire.DeclaredLen {
			env.Failf(class("content-length-mismatch"), "%s %s: Content-Length %d but %d body bytes", method, path, wire.DeclaredLen, len(rbytes))
		}
		need := func(h string) string {
			v := wire.Header.Get(h)
			if v == "" {
				env.Failf(class("missing-"+strings.ToLower(h)), "%s %s?%s answered %d without the mandatory %s header (headers %v)", method, path, rawq, status, h, wire.Header)
			}
			return v
		}
		// the Location of something created says where it can be fetched: a manifest under
		// manifests, a blob under blobs (also when the server is given its locations by
		// Options.LocationsForDescriptor, which is told which of the two it is asked about)
		locationOf := func(loc, what string) {
			if !strings.Contains(loc, "/"+what+"/") {
				env.Failf(class("location-of-the-wrong-kind"), "%s %s?%s answered %d with Location %q, which is not under /%s/", method, path, rawq, status, loc, what)
			}
		}
		kind := strings.SplitN(tmpl, "/", 2)[0]
		switch {
		case kind == "blob" && (method == "GET" || method == "HEAD") && (status == 200 || status == 206):
			if d := need("Docker-Content-Digest"); reg.ValidDigest(wantDigest) && d != wantDigest && mut == "none" {
				env.Failf(class("wrong-digest-header"), "%s %s answered Docker-Content-Digest %s", method, path, d)
			}
			cl := need("Content-Length")
			data, known := blobData[wantDigest]
			if !lenient && status == 200 && known && mut == "none" {
				if cl != strconv.Itoa(len(data)) {
					env.Failf(class("wrong-content-length"), "%s %s: Content-Length %s for a %d-byte blob", method, path, cl, len(data))
				}
				if method == "GET" && !bytes.Equal(rbytes, data) {
					env.Failf(class("wrong-body"), "GET %s served %d bytes that are not the blob", path, len(rbytes))
				}
			}
			if status == 206 {
				cr := need("Content-Range")
				if lenient {
					break // (what the body holds is the failing backend's doing)
				}
				var a, b, total int
				if n, _ := fmt.Sscanf(cr, "bytes %d-%d/%d", &a, &b, &total); n != 3 || b-a+1 != len(rbytes) || (known && total != len(data)) {
					env.Failf(class("wrong-content-range"), "GET %s (Range %q) answered 206 with Content-Range %q and %d body bytes", path, hdr.Get("Range"), cr, len(rbytes))
				}
				// (RFC 9110 14.4: first-pos <= last-pos < complete-length; a 206 cannot describe
				// an empty range - a range that selects nothing is not satisfiable, 416)
				if a >= 0 && b == a-1 && len(rbytes) == 0 {
					env.Failf("C06/content-range-of-empty-selection/GET/blob", "GET %s (Range %q) answered 206 with Content-Range %q and no body: the range selects no byte of the %d-byte blob, which a 206 cannot describe (not satisfiable: 416)", path, hdr.Get("Range"), cr, total)
				}
				if a < 0 || b < a || b >= total {
					env.Failf(class("malformed-content-range"), "GET %s (Range %q) answered 206 with Content-Range %q, which is not a byte range of a %d-byte representation", path, hdr.Get("Range"), cr, total)
				}
				if known && mut == "none" && a >= 0 && b < len(data) && a <= b+1 && !bytes.Equal(rbytes, data[a:b+1]) {
					env.Failf(class("wrong-range-body"), "GET %s (Range %q): body is not bytes %d-%d of the blob", path, hdr.Get("Range"), a, b)
				}
			}
		case kind == "manifest" && (method == "GET" || method == "HEAD") && status == 200:
			need("Content-Type")
			need("Content-Length")
			if !opts.OmitDigestFromTagGetResponse {
				// (the option emulates registries that leave the header out; what exactly it
				// leaves out is the option's business, not the protocol's)
				need("Docker-Content-Digest")
			}
		case kind == "manifest" && method == "PUT" && status == 201:
			locationOf(need("Location"), "manifests")
			if d := need("Docker-Content-Digest"); d != string(reg.Sha256(body)) {
				env.Failf(class("wrong-digest-header"), "PUT %s answered Docker-Content-Digest %s for content hashing to %s", path, d, reg.Sha256(body))
			}
		case kind == "uploads" && method == "POST" && status == 202:
			need("Location")
			need("Range")
		case kind == "uploads" && method == "POST" && status == 201:
			locationOf(need("Location"), "blobs") // a single-request upload, or a mount
			need("Docker-Content-Digest")
		case kind == "upload" && method == "PATCH" && status == 202:
			need("Location")
			need("Range")
		case kind == "upload" && method == "GET" && status == 204:
			need("Location")
			need("Range")
		case kind == "upload" && method == "PUT" && status == 201:
			locationOf(need("Location"), "blobs")
			need("Docker-Content-Digest")
		case (kind == "catalog" || kind == "tags" || kind == "referrers") && method == "GET" && status == 200:
			var v map[string]any
			if jerr := json.Unmarshal(rbytes, &v); jerr != nil && !lenient {
				env.Failf(class("listing-not-json"), "GET %s answered 200 with a body that is not JSON: %q", path, rbytes)
			}
			need("Content-Length")
		}
	}
}

// oddIDWriter is a BlobWriter whose upload id is whatever the backend likes.
type oddIDWriter struct {
	ociregistry.BlobWriter
	id string
}

func (w oddIDWriter) ID() string { return w.id }
