package props

import (
	"bytes"
	"context"
	"encoding/json"
	"errors"
	"fmt"
	"io"
	"net/http"
	"reflect"
	"strings"

	"cuelabs.dev/go/oci/ociregistry"

	"verifsim/core"
	"verifsim/reg"
	"verifsim/simnet"
)

// C07: errors keep their identity, status and message across the wire.
//
// The injected fault is the input: a scripted backend returns a generated error
// from the method chosen as carrier; the same call is made through 1, 2 and 3
// ociclient->simnet->ociserver hops.
func init() {
	core.Components["C07"] = [2][]string{
		{"ociregistry error marshalling (MarshalError, WireError, HTTPError)", "ociserver error exit", "ociclient error decoding", "1-3 proxy hops"},
		{"the backend: a scripted ociregistry.Funcs that fails the carrier method with the generated error", "net/http transport/server: simnet"}}
	core.Rules["C07"] = "one evaluation = one generated error (standard / custom code, wrapped with %w or an HTTP-status wrapper, message possibly beginning with a code or status prefix, JSON detail) carried by one Interface method through 1, 2 and 3 hops; distinct = distinct (base, code, wrapper, status, message class, detail class, carrier) tuple; non-trivial = the carrier reached the backend"
	core.Assumptions["C07"] = []string{
		"status 401 is not used in status wrappers: a 401 is an authentication conversation (C10/C11), not an error report",
	}
	register(&core.Scenario{Name: "c07-error-carriers", Property: "C07", Weight: 1, Run: c07})
}

var c07Carriers = []string{"GetBlob", "GetBlobRange", "GetManifest", "GetTag", "ResolveBlob", "ResolveManifest", "ResolveTag",
	"PushBlobChunked", "PushBlobChunkedResume", "MountBlob", "PushManifest", "DeleteBlob", "DeleteManifest", "DeleteTag",
	"Repositories", "Tags", "Referrers",
	// the first page of a listing is fine (and full), the continuation fails
	"Repositories.later-page", "Tags.later-page",
	// the error arises later, in the BlobWriter the backend handed out
	"Writer.Write", "Writer.Close", "Writer.Commit",
	// the Write fails with the error under test and the Close of that failed writer
	// fails too, with something else: the caller must hear about the former
	"Writer.Write+Close",
	// resume that asks the registry for the offset (a GET of the upload status)
	"PushBlobChunkedResume.ask"}

// failingWriter is a BlobWriter whose chosen method fails with err.
type failingWriter struct {
	fail string
	err  error
	n    int64
}

func (w *failingWriter) Write(p []byte) (int, error) {
	if w.fail == "Writer.Write" || w.fail == "Writer.Write+Close" {
		return 0, w.err
	}
	w.n += int64(len(p))
	return len(p), nil
}
func (w *failingWriter) Close() error {
	if w.fail == "Writer.Close" {
		return w.err
	}
	if w.fail == "Writer.Write+Close" {
		return ociregistry.NewError("the failed writer could not be closed cleanly either", "BLOB_UPLOAD_UNKNOWN", nil)
	}
	return nil
}
func (w *failingWriter) Size() int64    { return w.n }
func (w *failingWriter) ChunkSize() int { return 1 }
func (w *failingWriter) ID() string     { return "verif-upload" }
func (w *failingWriter) Cancel() error  { return nil }
func (w *failingWriter) Commit(d ociregistry.Digest) (ociregistry.Descriptor, error) {
	if w.fail == "Writer.Commit" {
		return ociregistry.Descriptor{}, w.err
	}
	return ociregistry.Descriptor{Digest: d, Size: w.n, MediaType: "application/octet-stream"}, nil
}

func writerBackend(carrier string, err error) ociregistry.Interface {
	w := &failingWriter{fail: carrier, err: err}
	return &ociregistry.Funcs{
		PushBlobChunked_: func(ctx context.Context, repo string, chunkSize int) (ociregistry.BlobWriter, error) { return w, nil },
		PushBlobChunkedResume_: func(ctx context.Context, repo, id string, offset int64, chunkSize int) (ociregistry.BlobWriter, error) {
			return w, nil
		},
	}
}

func scriptedBackend(err error) ociregistry.Interface {
	return &ociregistry.Funcs{NewError: func(ctx context.Context, method, repo string) error { return err }}
}

// laterPageBackend lists five items from the start and fails any listing that continues
// after one of them.
func laterPageBackend(err error) ociregistry.Interface {
	list := func(items []string, startAfter string) ociregistry.Seq[string] {
		if startAfter != "" {
			return ociregistry.ErrorSeq[string](err)
		}
		return ociregistry.SliceSeq(items)
	}
	return &ociregistry.Funcs{
		NewError: func(ctx context.Context, method, repo string) error { return err },
		Repositories_: func(ctx context.Context, startAfter string) ociregistry.Seq[string] {
			return list([]string{"ra", "rb", "rc", "rd", "re"}, startAfter)
		},
		Tags_: func(ctx context.Context, repo, startAfter string) ociregistry.Seq[string] {
			return list([]string{"t1", "t2", "t3", "t4", "t5"}, startAfter)
		},
	}
}

// resumeFailsBackend starts uploads and fails every attempt to resume one.
func resumeFailsBackend(err error) ociregistry.Interface {
	return &ociregistry.Funcs{
		NewError: func(ctx context.Context, method, repo string) error { return err },
		PushBlobChunked_: func(ctx context.Context, repo string, chunkSize int) (ociregistry.BlobWriter, error) {
			return &failingWriter{}, nil
		},
	}
}

func c07(env *core.Env) {
	c := env.C
	ctx := context.Background()
	// ---- the error ----
	msgs := []string{"", "something went wrong", "blob unknown: nested", "404 Not Found: fake status prefix", "name unknown", "unknown", "üñí \"quoted\" \\ back", "a: b: c", "denied", "500 Internal Server Error", "(no code)", "x\ny"}
	details := []string{"", `{"a":1}`, `[1,"two",null]`, `"just a string"`, `{"nested":{"k":[true,false]}}`, `0`, `{"uploadOffset":9007199254740993}`, `18446744073709551615`, `[1e400,0.1000000000000000055511151231257827]`, `{"a":1,"a":2}`, `"<&>\u2028"`}
	msg := msgs[c.Int("msg", len(msgs))]
	detail := details[c.Int("detail", len(details))]
	var rawDetail json.RawMessage
	if detail != "" {
		rawDetail = json.RawMessage(detail)
	}
	var base error
	baseKind := ""
	code := ""
	switch c.Weighted("base", []int{5, 3, 3, 2}) {
	case 0:
		e := reg.StdErrors[c.Int("std", len(reg.StdErrors))]
		base, baseKind, code = e, "std", e.Code()
	case 1:
		e := reg.StdErrors[c.Int("std", len(reg.StdErrors))]
		base, baseKind, code = ociregistry.NewError(msg, e.Code(), rawDetail), "std-custom-msg", e.Code()
	case 2:
		code = []string{"CUSTOM_CODE", "X", "lower_case", "WITH SPACE", "UNKNOWN", "BLOB_UNKNOWN_NOT"}[c.Int("customcode", 6)]
		base, baseKind = ociregistry.NewError(msg, code, rawDetail), "custom"
	case 3:
		base, baseKind = errors.New("plain: "+msg), "plain"
	}
	orig := base
	wrapper := []string{"none", "prefix-%w", "suffix-%w", "http", "http-over-%w", "%w-over-http"}[c.Int("wrapper", 6)]
	status := 400 + c.Int("status", 200)
	if c.Bool("status.416", 1, 12) {
		status = 416 // the one status with an errors.Is meaning of its own
	}
	if status == 401 {
		status = 402 // 401 is an authentication conversation, not an error report (C10/C11)
	}
	switch wrapper {
	case "prefix-%w":
		orig = fmt.Errorf("context at start: %w", base)
	case "suffix-%w":
		orig = fmt.Errorf("%w: context at end", base)
	case "http":
		orig = ociregistry.NewHTTPError(base, status, nil, nil)
	case "http-over-%w":
		orig = ociregistry.NewHTTPError(fmt.Errorf("ctx: %w", base), status, nil, nil)
	case "%w-over-http":
		orig = fmt.Errorf("outer: %w", ociregistry.NewHTTPError(base, status, nil, nil))
	}
	carrier := c07Carriers[c.Int("carrier", len(c07Carriers))]
	env.Sample("error: base=%s code=%q wrapper=%s status=%d msg=%q detail=%s carrier=%s -> %q", baseKind, code, wrapper, status, msg, detail, carrier, orig.Error())

	// expected status on the wire
	wantStatus := 500
	if s, ok := codeStatus[code]; ok {
		wantStatus = s
	} else {
		var he ociregistry.HTTPError
		if errors.As(orig, &he) {
			wantStatus = he.StatusCode()
		}
	}
	if code == "UNAUTHORIZED" {
		// 401 answers are consumed by an auth transport in real deployments; without one
		// the client reports them like any other error, which is what is checked here
	}

	call := func(r ociregistry.Interface, hops int) error {
		repo := "foo/bar"
		dig := reg.Sha256([]byte("x"))
		switch carrier {
		case "GetBlob":
			_, err := r.GetBlob(ctx, repo, dig)
			return err
		case "GetBlobRange":
			_, err := r.GetBlobRange(ctx, repo, dig, 1, 5)
			return err
		case "GetManifest":
			_, err := r.GetManifest(ctx, repo, dig)
			return err
		case "GetTag":
			_, err := r.GetTag(ctx, repo, "latest")
			return err
		case "ResolveBlob":
			_, err := r.ResolveBlob(ctx, repo, dig)
			return err
		case "ResolveManifest":
			_, err := r.ResolveManifest(ctx, repo, dig)
			return err
		case "ResolveTag":
			_, err := r.ResolveTag(ctx, repo, "latest")
			return err
		case "PushBlobChunked":
			_, err := r.PushBlob(ctx, repo, ociregistry.Descriptor{Digest: dig, Size: 1, MediaType: "application/octet-stream"}, bytes.NewReader([]byte("x")))
			return err
		case "PushBlobChunkedResume":
			// (an upload id that every hop accepts: one that the hops themselves made)
			w0, err := r.PushBlobChunked(ctx, repo, 1)
			if err != nil {
				return fmt.Errorf("harness: upload could not be started: %v", err)
			}
			w, err := r.PushBlobChunkedResume(ctx, repo, w0.ID(), 0, 0)
			if err != nil {
				return err
			}
			if _, err := w.Write([]byte("x")); err != nil {
				return err
			}
			_, err = w.Commit(dig)
			var perr interface{ Unwrap() error }
			_ = perr
			return err
		case "PushBlobChunkedResume.ask":
			w0, err := r.PushBlobChunked(ctx, repo, 1)
			if err != nil {
				return fmt.Errorf("harness: upload could not be started: %v", err)
			}
			_, err = r.PushBlobChunkedResume(ctx, repo, w0.ID(), -1, 0)
			return err
		case "Writer.Write", "Writer.Close", "Writer.Commit", "Writer.Write+Close":
			w, err := r.PushBlobChunked(ctx, repo, 1)
			if err != nil {
				return fmt.Errorf("harness: upload could not be started: %v", err)
			}
			if _, err := w.Write([]byte("x")); err != nil {
				return err
			}
			if carrier == "Writer.Commit" {
				_, err = w.Commit(dig)
				return err
			}
			return w.Close()
		case "MountBlob":
			_, err := r.MountBlob(ctx, "other/repo", repo, dig)
			return err
		case "PushManifest":
			_, err := r.PushManifest(ctx, repo, "latest", []byte(`{"x":1}`), "application/x-verif.opaque")
			return err
		case "DeleteBlob":
			return r.DeleteBlob(ctx, repo, dig)
		case "DeleteManifest":
			return r.DeleteManifest(ctx, repo, dig)
		case "DeleteTag":
			return r.DeleteTag(ctx, repo, "latest")
		case "Repositories":
			_, err := ociregistry.All(r.Repositories(ctx, ""))
			return err
		case "Tags":
			_, err := ociregistry.All(r.Tags(ctx, repo, ""))
			return err
		case "Referrers":
			_, err := ociregistry.All(r.Referrers(ctx, repo, dig, ""))
			return err
		case "Repositories.later-page":
			_, err := ociregistry.All(r.Repositories(ctx, ""))
			return err
		case "Tags.later-page":
			_, err := ociregistry.All(r.Tags(ctx, repo, ""))
			return err
		}
		return nil
	}
	head := carrier == "ResolveBlob" || carrier == "ResolveManifest" || carrier == "ResolveTag"
	var texts []string
	// Servers may be configured to redirect blob downloads; a function that names no
	// location means "serve it yourself" (the server still asks its backend about the
	// blob first).
	locationsOption := c.Bool("hop.locations-option", 1, 5)
	for hops := 1; hops <= 3; hops++ {
		var r ociregistry.Interface = scriptedBackend(orig)
		if strings.HasPrefix(carrier, "Writer.") {
			r = writerBackend(carrier, orig)
		}
		if strings.HasPrefix(carrier, "PushBlobChunkedResume") {
			r = resumeFailsBackend(orig)
		}
		o := &stackOpts{OneByte: c.Bool("onebyte", 1, 10), EOFData: c.Bool("eofdata", 1, 4)}
		if strings.HasSuffix(carrier, ".later-page") {
			r = laterPageBackend(orig)
			o.PageSize = 2
		}
		if locationsOption {
			o.Server.LocationsForDescriptor = func(bool, ociregistry.Descriptor) ([]string, error) { return nil, nil }
		}
		// The body of the error response may break off on its way to the caller: the code
		// and the message are lost with it, the status is not (it came first).
		brokenBody := !head && c.Bool("error-body-breaks-off", 1, 8)
		for i := 0; i < hops; i++ {
			var tr *simnet.Transport
			r, tr = httpHop(env, r, o, fmt.Sprintf("hop%d", i))
			if brokenBody && i == hops-1 {
				tr.Mutate = func(req *http.Request, resp *simnet.Response) {
					if resp.Status >= 400 && len(resp.Body) > 1 {
						resp.Body = resp.Body[:c.Range("error-body-breaks-off.at", 0, len(resp.Body)-1)]
						resp.BodyErr = io.ErrUnexpectedEOF
						env.Fault("error-body-breaks-off")
					}
				}
			}
		}
		got := call(r, hops)
		env.Op(fmt.Sprintf("%s/%s/%s/%d", baseKind, wrapper, carrier, hops))
		env.Logf("hops=%d -> %v", hops, got)
		class := func(k string) string {
			return fmt.Sprintf("C07/%s/%s/%s/%s", k, baseKind, wrapper, map[bool]string{true: "head", false: "body"}[head])
		}
		if got == nil {
			env.Failf(class("error-lost"), "%s through %d hop(s): the backend failed with %q but the client call succeeded", carrier, hops, orig)
		}
		var he ociregistry.HTTPError
		if !errors.As(got, &he) {
			env.Failf(class("no-http-status"), "%s through %d hop(s): the client error carries no HTTP status: %v", carrier, hops, got)
		}
		if head {
			if he.StatusCode()/100 != wantStatus/100 {
				env.Failf(class("status-class"), "%s through %d hop(s): status %d, want class of %d (original error %q)", carrier, hops, he.StatusCode(), wantStatus, orig)
			}
			// A HEAD answer has no body, so the code cannot survive; what can is the
			// status, exactly, and whatever identity the client invents from it has to
			// be one the specification gives that same status (else the next hop
			// changes the status).
			if he.StatusCode() != wantStatus {
				env.Failf(class("status"), "%s through %d hop(s): status %d, want %d (original error %q, code %q)", carrier, hops, he.StatusCode(), wantStatus, orig, code)
			}
			for _, e := range reg.StdErrors {
				if errors.Is(got, e) && codeStatus[e.Code()] != he.StatusCode() {
					env.Failf(class("head-identity-status-mismatch"), "%s through %d hop(s): the client reports %s for a HEAD answer with status %d, but the specification gives %s status %d (original error %q)", carrier, hops, e.Code(), he.StatusCode(), e.Code(), codeStatus[e.Code()], orig)
				}
			}
			continue
		}
		if he.StatusCode() != wantStatus {
			env.Failf(class("status"), "%s through %d hop(s): status %d, want %d (original error %q, code %q)", carrier, hops, he.StatusCode(), wantStatus, orig, code)
		}
		if brokenBody {
			continue // what the body carried is gone; that there was a status is not
		}
		for _, e := range reg.StdErrors {
			if errors.Is(got, e) != errors.Is(orig, e) {
				env.Failf(fmt.Sprintf("C07/errors-is/%s/code=%s/%s", e.Code(), code, map[bool]string{true: "head", false: "body"}[head]), "%s through %d hop(s): errors.Is(err, %s) is %v on the client but %v on the original error %q (client error %q)", carrier, hops, e.Code(), errors.Is(got, e), errors.Is(orig, e), orig, got)
			}
		}
		var oe, ge ociregistry.Error
		if errors.As(orig, &oe) {
			if !errors.As(got, &ge) {
				env.Failf(class("code-lost"), "%s through %d hop(s): the client error has no OCI code (original code %q): %v", carrier, hops, oe.Code(), got)
			}
			if ge.Code() != oe.Code() {
				env.Failf(class("code-changed"), "%s through %d hop(s): code %q became %q", carrier, hops, oe.Code(), ge.Code())
			}
			if !jsonEqual(oe.Detail(), ge.Detail()) {
				env.Failf(class("detail-changed"), "%s through %d hop(s): detail %s became %s", carrier, hops, oe.Detail(), ge.Detail())
			}
		}
		texts = append(texts, got.Error())
	}
	for i := 1; i < len(texts); i++ {
		if texts[i] != texts[0] {
			env.Failf(fmt.Sprintf("C07/message-not-fixed-point/carrier=%s/%s/%s", carrier, baseKind, wrapper), "%s: the message after 1 hop is %q but after %d hops it is %q (original %q)", carrier, texts[0], i+1, texts[i], orig)
		}
	}
	_ = io.EOF
}

func jsonEqual(a, b json.RawMessage) bool {
	if len(bytes.TrimSpace(a)) == 0 && len(bytes.TrimSpace(b)) == 0 {
		return true
	}
	// numbers are compared as written (json.Number), not as float64
	var x, y any
	da, db := json.NewDecoder(bytes.NewReader(a)), json.NewDecoder(bytes.NewReader(b))
	da.UseNumber()
	db.UseNumber()
	if da.Decode(&x) != nil || db.Decode(&y) != nil {
		return false
	}
	return reflect.DeepEqual(x, y)
}
