package props

import (
	"bytes"
	"context"
	"fmt"
	"net/http"
	"net/http/httptest"
	"strings"

	"cuelabs.dev/go/oci/ociregistry"
	"cuelabs.dev/go/oci/ociregistry/ociserver"

	"verifsim/core"
	"verifsim/reg"
	"verifsim/simnet"
)

// C01: content integrity.
//
// Family F0 (no faults): model-checked histories on every stack - every complete
// read returns exactly the pushed bytes, hashing to the requested digest, with
// descriptor size = length; every range read is the exact slice and describes the
// whole blob; rejected pushes leave nothing behind.
// Family F1 (corrupting middlebox): a complete read through ociclient either ends
// in an error or its bytes match its descriptor.
func init() {
	core.Components["C01"] = [2][]string{stdReal, append([]string{"a corrupting middlebox between client and server (simnet.Transport.Mutate)"}, stdStub...)}
	core.Rules["C01"] = "one evaluation = one simulated history (F0: 10-50 generated operations on one stack, model-checked; F1: reads of pre-populated content through a response-corrupting network); distinct = distinct sequence of (operation kind, outcome, fault) tokens; non-trivial = at least one operation issued"
	core.Assumptions["C01"] = []string{
		"only wire-feasible corruptions are injected (a body shorter than its Content-Length ends in an unexpected EOF, never in a clean EOF)",
		"a response whose body and Docker-Content-Digest were both replaced consistently is accepted under the substituted descriptor: that satisfies the statement and is only counted (probe)",
	}
	type sk struct {
		kind   string
		bubble bool
		w      int
	}
	for _, k := range []sk{
		{"mem", false, 2}, {"mem+http1", false, 4}, {"mem+http1+debug", false, 1}, {"mem+http2", false, 2},
		{"mem+select+http1", false, 1}, {"mem+sub+http1", false, 1}, {"mem+http1+sub", false, 1},
		{"unify+http1", true, 1}, {"unifyc", true, 1},
	} {
		k := k
		register(&core.Scenario{Name: "c01-f0-" + k.kind, Property: "C01", Weight: k.w, Bubble: k.bubble, LeakIsViolation: false,
			Run: func(env *core.Env) { c01f0(env, k.kind) }})
	}
	// interleavings with other pushes / writes / deletes: whatever a read returns with a
	// clean EOF hashes to the digest asked for (the scenario bodies are shared with C08)
	register(&core.Scenario{Name: "c01-concurrent-mem", Property: "C01", Weight: 2, Bubble: true, Run: func(env *core.Env) { c08(env, "mem", false) }})
	register(&core.Scenario{Name: "c01-concurrent-http", Property: "C01", Weight: 1, Bubble: true, Run: func(env *core.Env) { c08(env, "http", false) }})
	register(&core.Scenario{Name: "c01-commit-vs-write", Property: "C01", Weight: 1, Bubble: true, Run: c08commitWrite})
	register(&core.Scenario{Name: "c01-f1-corrupt", Property: "C01", Weight: 5, Run: c01f1})
	register(&core.Scenario{Name: "c01-singlepost", Property: "C01", Weight: 2, Run: c01singlePost})
}

func c01f0(env *core.Env, kind string) {
	c := env.C
	immutable := c.Bool("immutable", 1, 4)
	o := &stackOpts{Kind: kind, Immutable: immutable, OneByte: c.Bool("onebyte", 1, 10), EOFData: c.Bool("eofdata", 1, 4),
		PageSize: []int{0, 1, 2, 3, 1000}[c.Int("pagesize", 5)]}
	o.Server.OmitDigestFromTagGetResponse = c.Bool("omitdigest", 1, 3)
	o.Server.OmitLinkHeaderFromResponses = c.Bool("omitlink", 1, 3)
	o.Server.DisableSinglePostUpload = c.Bool("nosinglepost", 1, 3)
	st := buildStack(env, o)
	m := reg.NewModel(immutable)
	direct := kind == "mem"
	// (which code a refusal carries is C02's subject; here only that it is refused)
	m.StrictCodes = false
	w := reg.DefaultWeights()
	// integrity is about reads and pushes: weight them up
	w[reg.GetBlob], w[reg.GetBlobRange], w[reg.GetManifest], w[reg.GetTag], w[reg.PushBlob] = 10, 12, 8, 8, 16
	cfg := reg.GenConfig{
		Repos:      pickSome(c, "repos", repoNames, 1, 3),
		Tags:       pickSome(c, "tags", tagNames, 1, 3),
		MaxBlob:    300,
		Weights:    w,
		BadPush:    true,
		Motifs:     true,
		AltAlgo:    true,
		Uploads:    true,
		SmallReads: true,
		HTTPSafe:   !direct,
	}
	if c.Bool("bigblobs", 1, 6) {
		cfg.MaxBlob = 140000
	}
	if strings.Contains(kind, "unify") {
		cfg.Uploads = false // upload semantics through the unifier are C15's subject
	}
	n := c.Range("nops", 10, 50)
	if env.Tier == "thorough" {
		n = c.Range("nops", 10, 100)
	}
	env.Sample("stack=%s immutableTags=%v repos=%v ops=%d server=%+v", kind, immutable, cfg.Repos, n, o.Server)
	g := reg.NewGen(c, m, cfg)
	runHistory(env, context.Background(), st.Reg, m, g, n, "C01")
}

// c01f1: reads through a corrupting middlebox.
func c01f1(env *core.Env) {
	c := env.C
	ctx := context.Background()
	mem := newMem(false)
	repo := repoNames[c.Int("repo", len(repoNames))]
	type item struct {
		dig  ociregistry.Digest
		data []byte
		tag  string
		man  bool
	}
	var items []item
	nb := c.Range("nblobs", 1, 3)
	for i := 0; i < nb; i++ {
		n := []int{0, 1, 2, 17, 300, 5000}[c.Int("bloblen", 6)]
		data := c.Bytes("blob", n)
		d := reg.Sha256(data)
		if _, err := mem.PushBlob(ctx, repo, ociregistry.Descriptor{Digest: d, Size: int64(n), MediaType: "application/octet-stream"}, bytes.NewReader(data)); err != nil {
			core.Harnessf("populate: %v", err)
		}
		items = append(items, item{dig: d, data: data})
	}
	for i := 0; i < 2; i++ {
		data := []byte(fmt.Sprintf(`{"opaque":%d,"pad":"%s"}`, c.Int("manuniq", 1<<20), strings.Repeat("x", c.Range("manpad", 0, 200))))
		tag := tagNames[i]
		desc, err := mem.PushManifest(ctx, repo, tag, data, "application/x-verif.opaque")
		if err != nil {
			core.Harnessf("populate: %v", err)
		}
		items = append(items, item{dig: desc.Digest, data: data, tag: tag, man: true})
	}
	corrupted := ""
	o := &stackOpts{Kind: "mem+http1", OneByte: c.Bool("onebyte", 1, 10), EOFData: c.Bool("eofdata", 1, 4)}
	o.Server.OmitDigestFromTagGetResponse = c.Bool("omitdigest", 1, 3)
	srv := ociserver.New(mem, &o.Server)
	tr := &simnet.Transport{Env: env, Handler: srv, OneByteReads: o.OneByte, EOFWithData: o.EOFData}
	tr.Mutate = func(req *http.Request, resp *simnet.Response) {
		corrupted = ""
		if req.Method != "GET" || resp.Status/100 != 2 || !c.Bool("corrupt?", 3, 4) {
			return
		}
		kinds := []string{"flip-byte", "truncate-body", "extend-body+length", "extend-body-chunked", "shrink-length", "swap-digest", "swap-body+digest", "grow-length", "range-total"}
		k := kinds[c.Int("corruption", len(kinds))]
		body := append([]byte(nil), resp.Body...)
		switch k {
		case "flip-byte":
			if len(body) == 0 {
				return
			}
			i := c.Int("flip.at", len(body))
			body[i] ^= byte(1 + c.Int("flip.bits", 255))
			resp.Body = body
		case "truncate-body": // fewer bytes than Content-Length promises: unexpected EOF
			if len(body) == 0 {
				return
			}
			resp.Body = body[:c.Int("trunc.at", len(body))]
			resp.BodyErr = nil // build() turns the shortfall into io.ErrUnexpectedEOF
		case "extend-body+length":
			extra := c.Bytes("extra", c.Range("extra.n", 1, 9))
			resp.Body = append(body, extra...)
			resp.DeclaredLen = int64(len(resp.Body))
			resp.Header.Set("Content-Length", fmt.Sprint(len(resp.Body)))
		case "extend-body-chunked":
			extra := c.Bytes("extra", c.Range("extra.n", 1, 9))
			resp.Body = append(body, extra...)
			resp.DeclaredLen = -1
			resp.Header.Del("Content-Length")
			resp.SetRawCL, resp.RawContentLength = true, -1
		case "shrink-length": // a shorter, self-consistent response
			if len(body) == 0 {
				return
			}
			n := c.Int("shrink.to", len(body))
			resp.Body = body[:n]
			resp.DeclaredLen = int64(n)
			resp.Header.Set("Content-Length", fmt.Sprint(n))
		case "grow-length": // Content-Length larger than the body: unexpected EOF on the wire
			resp.DeclaredLen = int64(len(body) + c.Range("grow.by", 1, 5))
			resp.Header.Set("Content-Length", fmt.Sprint(resp.DeclaredLen))
		case "swap-digest":
			resp.Header.Set("Docker-Content-Digest", string(reg.Sha256(c.Bytes("otherdigest", 8))))
		case "swap-body+digest":
			nb := c.Bytes("otherbody", c.Range("otherbody.n", 0, 40))
			resp.Body = nb
			resp.DeclaredLen = int64(len(nb))
			resp.Header.Set("Content-Length", fmt.Sprint(len(nb)))
			resp.Header.Set("Docker-Content-Digest", string(reg.Sha256(nb)))
		case "range-total":
			if resp.Header.Get("Content-Range") == "" {
				return
			}
			resp.Header.Set("Content-Range", fmt.Sprintf("bytes 0-0/%d", c.Int("total", 4)))
		}
		corrupted = k
		env.Fault("corrupt:" + k)
	}
	client, tr2 := clientOn(env, tr)
	_ = tr2
	n := c.Range("nreads", 3, 12)
	env.Sample("repo=%q items=%d reads=%d omitDigest=%v", repo, len(items), n, o.Server.OmitDigestFromTagGetResponse)
	for i := 0; i < n; i++ {
		it := items[c.Int("item", len(items))]
		op := &reg.Op{StopAfter: -1, ContentFault: -1, Repo: repo, Digest: it.dig, Tag: it.tag}
		switch {
		case it.man && c.Bool("bytag", 1, 2):
			op.Kind = reg.GetTag
		case it.man:
			op.Kind = reg.GetManifest
		case c.Bool("range", 1, 3):
			op.Kind = reg.GetBlobRange
			op.O0 = int64(c.Range("o0", 0, len(it.data)))
			op.O1 = []int64{-1, int64(len(it.data)), op.O0 + 1, int64(len(it.data)) + 3}[c.Int("o1", 4)]
			if op.O0 == 0 && op.O1 < 0 {
				op.O1 = int64(len(it.data)) + 1
			}
		default:
			op.Kind = reg.GetBlob
		}
		if c.Bool("smallread", 1, 3) {
			op.ReadSize = []int{1, 3, 64}[c.Int("readsize", 3)]
		}
		corrupted = ""
		res := reg.Exec(ctx, client, op, nil)
		how := corrupted
		if how == "" {
			how = "clean"
		}
		env.Op(op.Kind.String() + ":" + how)
		env.Logf("%s [%s] -> %s", op, how, res)
		env.Sample("%s [network: %s] -> %s", op, how, res)
		degenerate := false
		if op.Kind == reg.GetBlobRange {
			o1 := op.O1
			if o1 < 0 || o1 > int64(len(it.data)) {
				o1 = int64(len(it.data))
			}
			degenerate = op.O0 >= o1
		}
		if res.Err != nil || res.ReadErr != nil {
			if how == "clean" && !degenerate {
				env.Failf("C01/"+op.Kind.String()+"/clean-read-failed", "%s failed without any corruption: %v %v", op, res.Err, res.ReadErr)
			}
			continue // an error no later than EOF is what the statement allows
		}
		// a clean end-of-stream
		if how == "truncate-body" || how == "grow-length" {
			// fewer bytes on the wire than the response's framing promised: too short,
			// for verified and unverified (range) reads alike
			env.Failf("C01/"+op.Kind.String()+"/truncated-body-clean-eof/"+how, "%s [network: %s]: the body broke off before the length the response declared, but the read ended cleanly with %d bytes", op, how, len(res.Data))
		}
		if op.Kind == reg.GetBlobRange {
			if int64(len(res.Data)) > res.Desc.Size {
				env.Failf("C01/GetBlobRange/more-than-blob", "%s [network: %s] delivered %d bytes, more than the blob size %d, and ended cleanly", op, how, len(res.Data), res.Desc.Size)
			}
			// A range read has no digest to check its bytes against, but it knows how many
			// there must be: too short or too long for the range asked for (within the
			// size the response itself states) is no clean end-of-stream either.
			if !degenerate && res.Desc.Size >= 0 {
				o1 := op.O1
				if o1 < 0 || o1 > res.Desc.Size {
					o1 = res.Desc.Size
				}
				if want := o1 - op.O0; want >= 0 && int64(len(res.Data)) != want {
					env.Failf("C01/GetBlobRange/wrong-length-clean-eof/"+how, "%s [network: %s] ended cleanly with %d bytes; the range asked for, within the %d bytes the response says the blob has, is %d bytes", op, how, len(res.Data), res.Desc.Size, want)
				}
			}
			if how == "clean" {
				o1 := op.O1
				if o1 < 0 || o1 > int64(len(it.data)) {
					o1 = int64(len(it.data))
				}
				if op.O0 < o1 && !bytes.Equal(res.Data, it.data[op.O0:o1]) {
					env.Failf("C01/GetBlobRange/wrong-slice", "%s returned %d bytes that are not the slice", op, len(res.Data))
				}
			}
			continue
		}
		if int64(len(res.Data)) != res.Desc.Size {
			env.Failf("C01/"+op.Kind.String()+"/size-mismatch-clean-eof/"+how, "%s [network: %s] ended cleanly with %d bytes but its descriptor says %d", op, how, len(res.Data), res.Desc.Size)
		}
		if !reg.ValidDigest(string(res.Desc.Digest)) || reg.Sum(strings.SplitN(string(res.Desc.Digest), ":", 2)[0], res.Data) != res.Desc.Digest {
			env.Failf("C01/"+op.Kind.String()+"/digest-mismatch-clean-eof/"+how, "%s [network: %s] ended cleanly but the %d bytes do not hash to the descriptor digest %s", op, how, len(res.Data), res.Desc.Digest)
		}
		if how == "clean" && !bytes.Equal(res.Data, it.data) {
			env.Failf("C01/"+op.Kind.String()+"/wrong-bytes", "%s returned other bytes than pushed", op)
		}
		if !bytes.Equal(res.Data, it.data) {
			if op.Kind != reg.GetTag && res.Desc.Digest == it.dig {
				env.Failf("C01/"+op.Kind.String()+"/wrong-bytes-under-requested-digest/"+how, "%s [network: %s]: other bytes accepted under the requested digest", op, how)
			}
			env.Probe("c01:substituted-descriptor-accepted")
		}
	}
}

// clientOn returns an ociclient over tr.
func clientOn(env *core.Env, tr *simnet.Transport) (ociregistry.Interface, *simnet.Transport) {
	o := &stackOpts{}
	_ = o
	c, err := newClient(tr, 0)
	if err != nil {
		core.Harnessf("%v", err)
	}
	return c, tr
}

// c01singlePost exercises the single-POST upload path (POST ?digest=) with raw
// requests against the server, then reads back through the client.
func c01singlePost(env *core.Env) {
	c := env.C
	ctx := context.Background()
	mem := newMem(false)
	srv := ociserver.New(mem, nil)
	tr := &simnet.Transport{Env: env, Handler: srv}
	client, _ := clientOn(env, tr)
	repo := repoNames[c.Int("repo", len(repoNames))]
	n := c.Range("nposts", 1, 6)
	env.Sample("repo=%q posts=%d", repo, n)
	for i := 0; i < n; i++ {
		data := c.Bytes("blob", []int{0, 1, 2, 40, 3000}[c.Int("len", 5)])
		good := reg.Sha256(data)
		declared := good
		how := "good"
		switch c.Weighted("bad", []int{6, 2, 2}) {
		case 1:
			declared = reg.Sha256(append([]byte(fmt.Sprintf("not-the-content-%d-%d:", i, c.Int("salt", 1<<20))), data...))
			how = "wrong-digest"
		case 2:
			declared = reg.Sum("sha512", data)
			how = "sha512"
		}
		req := httptest.NewRequest("POST", "/v2/"+repo+"/blobs/uploads/?digest="+string(declared), bytes.NewReader(data))
		req.Header.Set("Content-Type", "application/octet-stream")
		rec := httptest.NewRecorder()
		srv.ServeHTTP(rec, req)
		env.Op("single-post:" + how + fmt.Sprint(rec.Code/100))
		env.Logf("POST ?digest (%s, %d bytes) -> %d", how, len(data), rec.Code)
		env.Sample("POST %s %d bytes -> %d", how, len(data), rec.Code)
		switch how {
		case "good":
			if rec.Code != http.StatusCreated {
				env.Failf("C01/single-post/rejected", "single POST of %d bytes with the right digest answered %d: %s", len(data), rec.Code, rec.Body.String())
			}
		case "wrong-digest":
			if rec.Code/100 == 2 {
				env.Failf("C01/single-post/wrong-digest-accepted", "single POST with a wrong digest answered %d", rec.Code)
			}
		}
		// whatever was answered, only matching content may be retrievable
		for _, d := range []ociregistry.Digest{declared, good} {
			res := reg.Exec(ctx, client, &reg.Op{Kind: reg.GetBlob, Repo: repo, Digest: d, StopAfter: -1, ContentFault: -1}, nil)
			if res.Err != nil {
				if how == "good" {
					env.Failf("C01/single-post/not-retrievable", "blob pushed with a single POST cannot be read: %v", res.Err)
				}
				continue
			}
			if res.ReadErr != nil || (d == good && !bytes.Equal(res.Data, data)) || reg.Sum(strings.SplitN(string(d), ":", 2)[0], res.Data) != d {
				env.Failf("C01/single-post/wrong-content", "after a %s single POST, %s serves %d bytes (read error %v) that are not the %d bytes posted / do not hash to it", how, d, len(res.Data), res.ReadErr, len(data))
			}
		}
	}
	// manifest PUT addressed by digest, as a raw request: the reference is a
	// declared digest in any registered algorithm and must agree with the body
	nput := c.Range("nputs", 0, 4)
	for i := 0; i < nput; i++ {
		data := []byte(fmt.Sprintf(`{"verif":%d,"pad":%q}`, c.Int("man.uniq", 1<<20), string(c.Bytes("man.pad", c.Int("man.padlen", 30)))))
		good := reg.Sha256(data)
		other := append([]byte(fmt.Sprintf("not-the-content-%d:", i)), data...)
		declared, how, matches := good, "good", true
		switch c.Weighted("put.bad", []int{4, 2, 2, 2, 1}) {
		case 1:
			declared, how, matches = reg.Sha256(other), "wrong-sha256", false
		case 2:
			declared, how, matches = reg.Sum("sha512", other), "wrong-sha512", false
		case 3:
			declared, how, matches = reg.Sum("sha384", other), "wrong-sha384", false
		case 4:
			declared, how = reg.Sum("sha512", data), "right-sha512"
		}
		req := httptest.NewRequest("PUT", "/v2/"+repo+"/manifests/"+string(declared), bytes.NewReader(data))
		req.Header.Set("Content-Type", "application/x-verif.opaque")
		rec := httptest.NewRecorder()
		srv.ServeHTTP(rec, req)
		env.Op("manifest-put-by-digest:" + how + fmt.Sprint(rec.Code/100))
		env.Logf("PUT manifests/%s (%s, %d bytes) -> %d", declared, how, len(data), rec.Code)
		env.Sample("PUT manifest by digest %s -> %d", how, rec.Code)
		if how == "good" && rec.Code != http.StatusCreated {
			env.Failf("C01/manifest-put-by-digest/rejected", "manifest PUT by its own sha256 digest answered %d: %s", rec.Code, rec.Body.String())
		}
		if !matches && rec.Code/100 == 2 {
			env.Failf("C01/manifest-put-by-digest/"+how+"-accepted", "manifest PUT addressed as %s, which is not the digest of the %d-byte body, answered %d", declared, len(data), rec.Code)
		}
		for _, d := range []ociregistry.Digest{declared, good} {
			res := reg.Exec(ctx, client, &reg.Op{Kind: reg.GetManifest, Repo: repo, Digest: d, StopAfter: -1, ContentFault: -1}, nil)
			if res.Err != nil {
				if how == "good" {
					env.Failf("C01/manifest-put-by-digest/not-retrievable", "manifest pushed by digest cannot be read: %v", res.Err)
				}
				continue
			}
			if res.ReadErr != nil || reg.Sum(strings.SplitN(string(d), ":", 2)[0], res.Data) != d {
				env.Failf("C01/manifest-put-by-digest/wrong-content", "after a %s manifest PUT, %s serves %d bytes (read error %v) that do not hash to it", how, d, len(res.Data), res.ReadErr)
			}
		}
	}
}
