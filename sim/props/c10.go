package props

import (
	"fmt"
	"net/url"
	"sort"
	"strings"
	"time"

	"cuelabs.dev/go/oci/ociregistry/ociauth"

	"verifsim/core"
)

// C10: the auth transport only uses tokens that are sufficient, fresh and its own.
func init() {
	core.Components["C10"] = [2][]string{
		{"ociauth std transport (RoundTrip, token cache, challenge handling, token requests)", "ociauth.Scope / ParseScope as used by the transport", "ociauth challenge parser"},
		{"the registry and the token server: fakes written for the harness (they are the environment)", "the network: simnet.Transport", "the clock: the testing/synctest fake clock", "goroutine scheduling (1-4 caller tasks through one shared transport): the simulator"}}
	core.Rules["C10"] = "one evaluation = one simulated conversation: 1-4 tasks issue 1-5 requests each (required/desired scopes from a small lattice) through one auth transport against a fake registry (challenging with exact, superset, reordered or duplicated scope text) and a fake token server (grants all / a subset / refuses wide requests; with or without the POST endpoint; lifetimes absent or 1-3 s or long; token / access_token; refresh tokens), with idle gaps, clock jumps and token-request latency; under one credential configuration (none, basic, refresh token, static token); distinct = distinct sequence of (scope, gap class, outcome, token requests) tokens x schedule; non-trivial = at least one request reached the registry"
	core.Assumptions["C10"] = []string{
		"'not expired' is asserted strictly; 'must be reused' only when the cached token has at least 30 s left for the whole call (a wide neutral band around the transport's own expiry margin)",
		"a token counts as cached for a call only if the call that acquired it had returned before this call started",
	}
	register(&core.Scenario{Name: "c10-token-use", Property: "C10", Weight: 1, Bubble: true, LeakIsViolation: false, Run: c10})
}

var scopeLattice = []string{
	"repository:foo:pull",
	"repository:foo:pull,push",
	"repository:bar:pull",
	"repository:foo:pull repository:bar:pull",
	"repository:bar:pull,push repository:foo:pull",
	"registry:catalog:*",
	"",
}

func scopeOfTokenRequest(o *outReq) (text string, set nscope) {
	if o.method == "POST" {
		form, _ := url.ParseQuery(o.body)
		text = form.Get("scope")
	} else {
		u, _ := url.Parse(o.url)
		text = strings.Join(u.Query()["scope"], " ")
	}
	return text, parseNaive(text)
}

func c10(env *core.Env) {
	c := env.C
	h := &regHost{name: "reg1.example", realmHost: "auth.reg1.example", realmURL: "http://auth.reg1.example/token", mode: "bearer", service: "reg1.example"}
	creds := []string{"none", "basic", "refresh", "static"}[c.Int("creds", 4)]
	switch creds {
	case "basic":
		h.user, h.pass = "user1", "pw-reg1"
		h.requireCreds = true
	case "refresh":
		h.refresh = "rt-reg1"
		h.requireCreds = c.Bool("requirecreds", 1, 2)
	case "static":
		h.static = "static-reg1"
	}
	h.grant = []string{"all", "all", "subset", "refuse-wide"}[c.Int("grant", 4)]
	h.noPOST = c.Bool("nopost", 1, 3)
	if h.noPOST && creds == "refresh" && h.requireCreds {
		h.requireCreds = false // the GET fallback carries no refresh token
	}
	h.lifetimes = [][]int{{0}, {1, 2, 3}, {3}, {300}, {0, 2, 300}}[c.Int("lifetimes", 5)]
	h.tokenField = []string{"token", "access_token", "both"}[c.Int("tokenfield", 3)]
	h.giveRefresh = c.Bool("giverefresh", 1, 3)
	h.challengeMut = []string{"", "", "superset", "reordered", "duplicate", "more-actions"}[c.Int("challengemut", 6)]
	if c.Bool("spurious401", 1, 6) {
		h.spurious401 = 1
	}
	if c.Bool("revocations", 1, 4) {
		h.revokeRate = c.Range("revocations.rate", 2, 6)
	}
	if c.Bool("same-token-text", 1, 5) {
		// one token per client rather than per request: whatever is asked for, the
		// answer is the same text for as long as that token is good
		h.sameToken, h.grant, h.lifetimes = true, "all", []int{300}
	}
	w := newAuthWorld(env, []*regHost{h})
	maxLat := c.Range("latency.max", 0, 4)
	w.latency = func() time.Duration { return time.Duration(c.Int("latency", maxLat+1)) * time.Second }
	w.rt = ociauth.NewStdTransport(ociauth.StdTransportParams{Config: worldConfig{w: w}, Transport: w.tr})
	ntasks := c.Range("ntasks", 1, 4)
	maxCalls := 5
	if env.Tier == "thorough" && c.Bool("deep", 1, 3) {
		ntasks, maxCalls = c.Range("ntasks.deep", 4, 10), 8
	}
	type planned struct {
		required, desired string
		gap               time.Duration
	}
	plans := make([][]planned, ntasks)
	for t := range plans {
		for i, n := 0, c.Range("ncalls", 1, maxCalls); i < n; i++ {
			p := planned{required: scopeLattice[c.Int("required", len(scopeLattice))]}
			if c.Bool("desired", 1, 3) {
				p.desired = scopeLattice[c.Int("desired.scope", len(scopeLattice)-1)]
				if c.Bool("desired.everything", 1, 6) {
					p.desired = desiredEverything
				}
			}
			switch c.Weighted("gap", []int{5, 3, 2, 1}) {
			case 1:
				p.gap = time.Duration(c.Range("gap.s", 1, 4)) * time.Second
			case 2:
				p.gap = time.Duration(c.Range("gap.ms", 1, 1999)) * time.Millisecond
			case 3:
				p.gap = time.Duration(c.Range("gap.min", 1, 10)) * time.Minute
			}
			plans[t] = append(plans[t], p)
		}
	}
	env.Sample("creds=%s grant=%s noPOST=%v lifetimes=%v field=%s refresh-issued=%v challenge=%q spurious401=%d revokes 1/%d tasks=%d", creds, h.grant, h.noPOST, h.lifetimes, h.tokenField, h.giveRefresh, h.challengeMut, h.spurious401, h.revokeRate, ntasks)
	sched := env.Sched
	type callSpan struct{ start, end int64 }
	spans := map[int]*callSpan{}
	nextID := 0
	for t := 0; t < ntasks; t++ {
		t := t
		sched.Spawn(fmt.Sprintf("caller%d", t), func() {
			for _, p := range plans[t] {
				if p.gap > 0 {
					sched.Sleep(p.gap)
				} else {
					sched.Yield()
				}
				nextID++
				id := nextID
				sp := &callSpan{start: sched.Seq()}
				spans[id] = sp
				// which tokens are certainly in the cache when this call starts? (one that the
				// registry has ever answered 401 to may have been dropped, rightly)
				startTime := w.now()
				var cachedOK *issuedToken
				var candidates []*issuedToken
				req := parseNaive(p.required)
				for _, it := range w.issued {
					// (what the transport holds is one entry per token response, under the scope
					// that response was asked for)
					acquired := false
					for _, a := range it.acquisitions {
						if s := spans[a.callID]; s != nil && s.end != 0 && s.end < sp.start && a.requested.contains(req) && startTime.Add(30*time.Second).Before(a.expires) {
							acquired = true
						}
					}
					if it.host == h.name && acquired && it.granted.contains(req) && !it.revoked && !it.refused &&
						startTime.Add(30*time.Second).Before(it.issuedAt.Add(it.lifetime)) {
						candidates = append(candidates, it)
					}
				}
				// (the harness's own map is iterated in Go's random order: sort)
				sort.Slice(candidates, func(i, j int) bool { return candidates[i].token < candidates[j].token })
				res := w.call(id, h.name, p.required, p.desired, false, false)
				sp.end = sched.Seq()
				for _, it := range candidates {
					// (not one that a concurrent call was told meanwhile the registry no longer takes)
					if !it.refused && !it.revoked {
						cachedOK = it
						break
					}
				}
				checkC10Call(env, w, h, res, p.required, p.desired, cachedOK, func(callID int) bool {
					s := spans[callID]
					return s != nil && s.end != 0 && s.end < sp.start
				})
				gapClass := "none"
				switch {
				case p.gap >= time.Minute:
					gapClass = "minutes"
				case p.gap >= time.Second:
					gapClass = "seconds"
				case p.gap > 0:
					gapClass = "subsecond"
				}
				nrealm := 0
				for _, o := range res.outs {
					if o.kind == "realm" {
						nrealm++
					}
				}
				env.Op(fmt.Sprintf("%s|%s|gap:%s|%d|tok%d|cached:%v", p.required, p.desired, gapClass, res.status, nrealm, cachedOK != nil))
				env.Logf("task %d call %d required=%q desired=%q gap=%v -> %d %v; sent: %s", t, id, p.required, p.desired, p.gap, res.status, res.err, describeOuts(res.outs))
				env.Sample("task %d: required=%q desired=%q after %v -> status %d err=%v; sent: %s", t, p.required, p.desired, p.gap, res.status, res.err, describeOuts(res.outs))
			}
		})
	}
}

func describeOuts(outs []*outReq) string {
	var ss []string
	for _, o := range outs {
		a := ""
		switch {
		case o.bearer != "":
			a = " bearer=" + o.bearer
		case o.basicU != "":
			a = " basic=" + o.basicU
		}
		sc := ""
		if o.kind == "realm" {
			t, _ := scopeOfTokenRequest(o)
			sc = " scope=" + fmt.Sprintf("%q", t)
		}
		ss = append(ss, fmt.Sprintf("%s %s%s%s->%d", o.method, o.dest, a, sc, o.status))
	}
	return strings.Join(ss, "; ")
}

func checkC10Call(env *core.Env, w *authWorld, h *regHost, res *callResult, required, desired string, cachedOK *issuedToken, knewBefore func(callID int) bool) {
	if desired == desiredEverything {
		desired = ""
	}
	reqSet, desSet := parseNaive(required), parseNaive(desired)
	var lastChallenge *outReq
	realmSeen := 0
	firstAfterChallenge := true
	var prevRealm *outReq
	nreg := 0
	spurious := false
	for _, o := range res.outs {
		switch o.kind {
		case "registry":
			nreg++
			if o.bearer != "" {
				it := w.issued[o.bearer]
				switch {
				case o.bearer == h.static && h.static != "":
				case it == nil || it.host != o.dest:
					env.Failf("C10/foreign-token", "a request to %s carried bearer token %q which was never issued to this transport for that host. %s", o.dest, o.bearer, describeOuts(res.outs))
				default:
					if !o.at.Before(it.issuedAt.Add(it.lifetime)) {
						env.Failf("C10/expired-token", "a request to %s at %v carried token %s which had expired at %v (issued %v, lifetime %v). %s", o.dest, o.at.Format("15:04:05.000"), it.token, it.issuedAt.Add(it.lifetime).Format("15:04:05.000"), it.issuedAt.Format("15:04:05.000"), it.lifetime, describeOuts(res.outs))
					}
					if it.callID != res.id || realmSeen == 0 {
						// reused from the cache
						if !it.requested.contains(reqSet) {
							env.Failf("C10/insufficient-cached-token", "a request requiring %s reused token %s which was acquired for %s. %s", reqSet, it.token, it.requested, describeOuts(res.outs))
						}
					} else if lastChallenge != nil {
						ch := parseNaive(lastChallenge.challengeScope)
						if !it.requested.contains(ch) {
							env.Failf("C10/token-narrower-than-challenge", "the token acquired in answer to challenge scope %q was requested for %s only. %s", lastChallenge.challengeScope, it.requested, describeOuts(res.outs))
						}
					}
					if o.status == 401 && it.granted.contains(reqSet) && !(it.revoked && it.revokedIn != res.id && knewBefore(it.revokedIn)) {
						// (a token the registry turned down in a call that had returned before this one
						// began is not a surprise; while that call is still on its way back - it may be
						// waiting for the lock this call took first - the transport cannot know yet)
						spurious = true
					}
				}
			}
			if o.status == 401 && o.challenged {
				lastChallenge = o
				firstAfterChallenge = true
			}
		case "realm":
			realmSeen++
			text, set := scopeOfTokenRequest(o)
			retryOfPrev := prevRealm != nil && (prevRealm.status == 404 || prevRealm.status == 401)
			switch {
			case lastChallenge != nil && firstAfterChallenge && !retryOfPrev:
				ch := parseNaive(lastChallenge.challengeScope)
				want := ch.union(reqSet).union(desSet)
				if !set.equal(want) {
					env.Failf("C10/token-request-scope", "the token request answering challenge %q (required %q, desired %q) asked for %s, want %s. %s", lastChallenge.challengeScope, required, desired, set, want, describeOuts(res.outs))
				}
				if want.equal(ch) && text != lastChallenge.challengeScope {
					env.Failf("C10/token-request-text", "required and desired scope add nothing to the challenge scope %q, but the token request asked for %q instead of the challenge's own text. %s", lastChallenge.challengeScope, text, describeOuts(res.outs))
				}
				firstAfterChallenge = false
			case lastChallenge != nil && retryOfPrev:
				ch := parseNaive(lastChallenge.challengeScope)
				if !set.contains(ch) {
					env.Failf("C10/token-request-scope", "a retried token request after challenge %q asked for %s, which does not cover the challenge. %s", lastChallenge.challengeScope, set, describeOuts(res.outs))
				}
			case lastChallenge == nil && retryOfPrev:
				// (a second try after the token server refused the first - without the
				// POST endpoint, or with less asked for - still has to be good for the request
				// it is made for)
				if !set.contains(reqSet) {
					env.Failf("C10/token-request-scope", "a retried proactive token request (required %q, desired %q) asked for %s, which does not cover the required scope. %s", required, desired, set, describeOuts(res.outs))
				}
			case lastChallenge == nil && !retryOfPrev:
				if !set.contains(reqSet.union(desSet)) {
					env.Failf("C10/token-request-scope", "a proactive token request (required %q, desired %q) asked for %s only. %s", required, desired, set, describeOuts(res.outs))
				}
			}
			prevRealm = o
		}
	}
	if cachedOK != nil && !spurious {
		if realmSeen > 0 || nreg > 1 {
			env.Failf("C10/cached-token-not-reused", "token %s (acquired for %s, granted %s, valid until %v) covered the required scope %q when the call started at %v, yet the call made %d token request(s) and %d registry request(s). %s",
				cachedOK.token, cachedOK.requested, cachedOK.granted, cachedOK.issuedAt.Add(cachedOK.lifetime).Format("15:04:05.000"), required, res.start.Format("15:04:05.000"), realmSeen, nreg, describeOuts(res.outs))
		}
		env.Probe("c10:cached-token-reuse-asserted")
	}
	if realmSeen > 0 {
		env.Probe("c10:token-acquired")
	}
}
