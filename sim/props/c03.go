package props

import (
	"bytes"
	"context"
	"errors"
	"fmt"
	"slices"

	"cuelabs.dev/go/oci/ociregistry"

	"verifsim/core"
	"verifsim/reg"
)

// C03: the HTTP client+server are transparent.
//
// Twin worlds are fed the same generated history: world D is an ocimem called
// directly; world H is an identical ocimem behind a recording wrapper, one or two
// ociclient->simnet->ociserver hops, optionally ocidebug, under a seeded server
// option set. Every call must yield the same success/failure, the same standard
// error codes (status class for the HEAD-based resolves), the same descriptor and
// the same bytes; and the backend behind the server must see exactly the
// caller's operations and arguments.
func init() {
	core.Components["C03"] = [2][]string{stdReal, stdStub}
	core.Rules["C03"] = "one evaluation = one generated history of 10-40 Interface/BlobWriter calls executed in two worlds (direct ocimem vs. ocimem behind recording wrapper + HTTP hop(s)); distinct = distinct sequence of (operation kind, outcome code) tokens; non-trivial = at least one operation issued"
	core.Assumptions["C03"] = []string{
		"transparency is a fault-free relation: only meaning-preserving network behaviours (1-byte reads, EOF with data) are varied here",
		"histories are restricted to calls HTTP can carry faithfully: well-formed names for reads, non-empty manifest media types, disciplined BlobWriter use (close before resume, true offsets)",
	}
	for _, k := range []struct {
		kind string
		w    int
	}{{"mem+rec+http1", 4}, {"mem+rec+http1+debug", 1}, {"mem+rec+http2", 2}, {"mem+rec+debug+http1", 1}} {
		k := k
		register(&core.Scenario{Name: "c03-" + k.kind, Property: "C03", Weight: k.w, Run: func(env *core.Env) { c03(env, k.kind) }})
	}
}

// statusOf: the HTTP status an error maps to on the wire.
func statusOf(err error) int {
	var he ociregistry.HTTPError
	if errors.As(err, &he) {
		return he.StatusCode()
	}
	_, st := ociregistry.MarshalError(err)
	return st
}

// allowedCalls: which backend methods an operation may cause, the first being the
// primary one that must carry the caller's arguments.
var allowedCalls = map[reg.Kind][]string{
	reg.GetBlob:         {"GetBlob"},
	reg.GetBlobRange:    {"GetBlobRange", "GetBlob"},
	reg.GetManifest:     {"GetManifest"},
	reg.GetTag:          {"GetTag", "ResolveTag"},
	reg.ResolveBlob:     {"ResolveBlob"},
	reg.ResolveManifest: {"ResolveManifest"},
	reg.ResolveTag:      {"ResolveTag"},
	reg.PushBlob:        {"PushBlobChunked", "PushBlobChunkedResume"},
	reg.MountBlob:       {"MountBlob"},
	reg.PushManifest:    {"PushManifest"},
	reg.DeleteBlob:      {"DeleteBlob"},
	reg.DeleteManifest:  {"DeleteManifest"},
	reg.DeleteTag:       {"DeleteTag"},
	reg.Repositories:    {"Repositories"},
	reg.Tags:            {"Tags"},
	reg.Referrers:       {"Referrers"},
	reg.UpStart:         {"PushBlobChunked"},
	reg.UpResume:        {"PushBlobChunkedResume"},
	reg.UpWrite:         {"PushBlobChunkedResume"},
	reg.UpClose:         {"PushBlobChunkedResume"},
	reg.UpCommit:        {"PushBlobChunkedResume"},
	reg.UpCancel:        {},
	reg.UpSize:          {},
}

func c03(env *core.Env, kind string) {
	c := env.C
	ctx := context.Background()
	immutable := c.Bool("immutable", 1, 3)
	o := &stackOpts{Kind: kind, Immutable: immutable, OneByte: c.Bool("onebyte", 1, 10), EOFData: c.Bool("eofdata", 1, 4),
		PageSize: []int{0, 1, 2, 3, 5, 1000}[c.Int("pagesize", 6)]}
	o.Server.OmitDigestFromTagGetResponse = c.Bool("omitdigest", 1, 3)
	o.Server.OmitLinkHeaderFromResponses = c.Bool("omitlink", 1, 3)
	o.Server.DisableSinglePostUpload = c.Bool("nosinglepost", 1, 3)
	if c.Bool("maxpage", 1, 4) {
		o.Server.MaxListPageSize = 1000
	}
	st := buildStack(env, o)
	direct := newMem(immutable)
	m := reg.NewModel(immutable)
	m.StrictCodes = false
	cfg := reg.GenConfig{
		Repos:      pickSome(c, "repos", repoNames, 1, 3),
		Tags:       pickSome(c, "tags", tagNames, 1, 3),
		MaxBlob:    300,
		Weights:    reg.DefaultWeights(),
		BadPush:    false,
		AltAlgo:    true,
		Uploads:    true,
		SmallReads: true,
		HTTPSafe:   true,
		Stops:      true,
	}
	if c.Bool("bigmanifests", 1, 5) {
		cfg.MaxBlob = 140000
	}
	n := c.Range("nops", 10, 40)
	if env.Tier == "thorough" {
		n = c.Range("nops", 10, 90)
		cfg.Repos = pickSome(c, "repos", repoNames, 1, 5)
	}
	env.Sample("stack=%s immutableTags=%v repos=%v ops=%d pageSize=%d server=%+v", kind, immutable, cfg.Repos, n, o.PageSize, o.Server)
	g := reg.NewGen(c, m, cfg)
	hD, hH := reg.NewHandles(), reg.NewHandles()
	for i := 0; i < n; i++ {
		op := g.Next()
		if op.Kind == reg.PushManifest && len(op.Data) < 131072 && c.Bool("padmanifest", 1, 12) && op.MediaType != reg.MTImageManifest && op.MediaType != reg.MTImageIndex {
			// manifests on both sides of the client's in-memory threshold
			op.Data = append(op.Data, bytes.Repeat([]byte(" "), 131080-len(op.Data)+c.Int("pad", 5))...)
		}
		if reg.IsRead(op.Kind) && c.Bool("overlap", 1, 5) {
			// two readers open at the same time: the second call must not disturb the first
			op2 := g.NextRead()
			if op2 != nil {
				d1, d2 := reg.ExecOverlapped(ctx, direct, op, op2)
				h1, h2 := reg.ExecOverlapped(ctx, st.Reg, op, op2)
				env.Op("overlapped:" + op.Kind.String() + "+" + op2.Kind.String())
				env.Probe("c03:overlapped-readers")
				env.Logf("%d overlapped %s || %s\n    direct: %s | %s\n    http:   %s | %s", i, op, op2, d1, d2, h1, h2)
				for k, pair := range [][2]*reg.Res{{d1, h1}, {d2, h2}} {
					d, h := pair[0], pair[1]
					o := []*reg.Op{op, op2}[k]
					if o.Kind == reg.GetBlobRange && o.O1 >= 0 && o.O0 >= o.O1 {
						continue
					}
					if (d.Err == nil) != (h.Err == nil) || (d.ReadErr == nil) != (h.ReadErr == nil) || !bytes.Equal(d.Data, h.Data) {
						env.Failf("C03/overlapped-readers/"+o.Kind.String(), "step %d: %s and %s were opened together and then drained in order; reader %d (%s) behaves differently over HTTP\n  direct: %s\n  http:   %s", i, op, op2, k+1, o, d, h)
					}
				}
				continue
			}
		}
		rD := reg.Exec(ctx, direct, op, hD)
		st.Tracker.Reset()
		rH := reg.Exec(ctx, st.Reg, op, hH)
		calls := slices.Clone(st.Tracker.Calls)
		m.Step(op, rD) // keeps the generator's picture of the registry current
		env.Op(op.Kind.String() + ":" + reg.CodeOf(rD.Err))
		env.Logf("%d %s\n    direct: %s\n    http:   %s", i, op, rD, rH)
		env.Sample("%s -> direct: %s | http: %s", op, rD, rH)
		fail := func(kind string, format string, a ...any) {
			env.Failf(classOf("C03", op, "")+"/"+kind, "step %d: %s\n  direct: %s\n  http:   %s\n  %s", i, op, rD, rH, fmt.Sprintf(format, a...))
		}
		if op.Kind == reg.GetBlobRange && op.O1 >= 0 && op.O0 >= op.O1 {
			// HTTP cannot express an empty or inverted range: outside the relation
			env.Probe("c03:degenerate-range-skipped")
			continue
		}
		// "A repository that holds no content may be reported either as unknown or as
		// empty": the two worlds may differ in which empty repositories exist (a
		// refused push over HTTP has already opened an upload session).
		lookedUp := op.Repo
		if op.Kind == reg.MountBlob {
			lookedUp = op.Repo2
		}
		emptyRepo := lookedUp != "" && !m.HasContent(lookedUp)
		unknownish := func(err error) bool {
			return errors.Is(err, ociregistry.ErrNameUnknown) || errors.Is(err, ociregistry.ErrBlobUnknown) || errors.Is(err, ociregistry.ErrManifestUnknown)
		}
		if emptyRepo && (op.Kind == reg.Tags || op.Kind == reg.Referrers) {
			okD := rD.ListErr == nil && len(rD.Items) == 0 && len(rD.Descs) == 0 || rD.ListErr != nil && unknownish(rD.ListErr)
			okH := rH.ListErr == nil && len(rH.Items) == 0 && len(rH.Descs) == 0 || rH.ListErr != nil && unknownish(rH.ListErr)
			if okD && okH {
				continue
			}
		}
		if op.Kind == reg.Repositories {
			keep := func(xs []string) []string {
				var out []string
				for _, x := range xs {
					if m.HasContent(x) {
						out = append(out, x)
					}
				}
				return out
			}
			if op.StopAfter < 0 {
				rD.Items, rH.Items = keep(rD.Items), keep(rH.Items)
			} else if !slices.Equal(rD.Items, rH.Items) {
				// with an early-stopping consumer, optional empty repositories shift the
				// prefix; only check that both are prefixes of a legitimate listing (C05)
				continue
			}
		}
		// success / failure
		if (rD.Err == nil) != (rH.Err == nil) {
			fail("success-differs", "the call %s directly but %s over HTTP", okWord(rD.Err), okWord(rH.Err))
		}
		if (rD.ListErr == nil) != (rH.ListErr == nil) {
			fail("listing-error-differs", "the listing %s directly but %s over HTTP", okWord(rD.ListErr), okWord(rH.ListErr))
		}
		// error identity
		for _, pair := range [][2]error{{rD.Err, rH.Err}, {rD.ListErr, rH.ListErr}} {
			d, h := pair[0], pair[1]
			if d == nil || h == nil {
				continue
			}
			switch op.Kind {
			case reg.ResolveBlob, reg.ResolveManifest, reg.ResolveTag:
				if statusOf(d)/100 != statusOf(h)/100 {
					fail("status-class-differs", "HTTP status class %d directly vs %d over HTTP", statusOf(d), statusOf(h))
				}
			default:
				if emptyRepo && unknownish(d) && unknownish(h) {
					continue
				}
				if op.Kind == reg.PushManifest && !reg.WellFormed(op.MediaType, op.Data) {
					// The server refuses malformed OCI JSON before it consults the backend,
					// so when the backend has another reason to refuse (tag immutability)
					// the two may name different reasons. Both refuse; only that is compared.
					env.Probe("c03:malformed-manifest-code-not-compared")
					continue
				}
				if reg.CodeOf(d) != reg.CodeOf(h) {
					fail("code-differs", "error code %s directly vs %s over HTTP", reg.CodeOf(d), reg.CodeOf(h))
				}
			}
		}
		if rD.Err == nil && rH.Err == nil {
			// descriptors
			if rD.Desc.Digest != rH.Desc.Digest {
				fail("digest-differs", "descriptor digest %s vs %s", rD.Desc.Digest, rH.Desc.Digest)
			}
			sizeOK := rD.Desc.Size == rH.Desc.Size || (op.Kind == reg.MountBlob && rH.Desc.Size == 0)
			if !sizeOK {
				fail("size-differs", "descriptor size %d vs %d", rD.Desc.Size, rH.Desc.Size)
			}
			switch op.Kind {
			case reg.GetManifest, reg.GetTag, reg.ResolveManifest, reg.ResolveTag, reg.PushManifest:
				if rD.Desc.MediaType != rH.Desc.MediaType {
					fail("mediatype-differs", "media type %q vs %q", rD.Desc.MediaType, rH.Desc.MediaType)
				}
			}
			if !bytes.Equal(rD.Data, rH.Data) || (rD.ReadErr == nil) != (rH.ReadErr == nil) {
				fail("bytes-differ", "%d bytes (read error %v) vs %d bytes (read error %v)", len(rD.Data), rD.ReadErr, len(rH.Data), rH.ReadErr)
			}
			if !slices.Equal(rD.Items, rH.Items) {
				fail("items-differ", "listing %v vs %v", rD.Items, rH.Items)
			}
			if len(rD.Descs) != len(rH.Descs) {
				fail("items-differ", "%d referrers vs %d", len(rD.Descs), len(rH.Descs))
			}
			for j := range rD.Descs {
				a, b := rD.Descs[j], rH.Descs[j]
				if a.Digest != b.Digest || a.Size != b.Size || a.MediaType != b.MediaType {
					fail("items-differ", "referrer %d: %v vs %v", j, a, b)
				}
			}
			if op.Kind == reg.UpWrite && rD.N != rH.N {
				fail("write-count-differs", "Write returned %d vs %d", rD.N, rH.N)
			}
			if (op.Kind == reg.UpWrite || op.Kind == reg.UpResume || op.Kind == reg.UpSize || op.Kind == reg.UpStart) && rD.Size != rH.Size {
				fail("writer-size-differs", "writer size %d vs %d", rD.Size, rH.Size)
			}
			if rH.ExtraCalls > 0 {
				fail("consumer-called-after-stop", "the iterator called its consumer %d more times after it declined", rH.ExtraCalls)
			}
		}
		// what the backend behind the server saw
		allowed := allowedCalls[op.Kind]
		sawPrimary := false
		for _, call := range calls {
			if !slices.Contains(allowed, call.Method) {
				fail("backend-foreign-call", "the backend received %s, which %s does not map to", call, op.Kind)
			}
			isUpload := call.Method == "PushBlobChunked" || call.Method == "PushBlobChunkedResume"
			wantRepo := op.Repo
			if op.Kind >= reg.UpResume && op.Kind <= reg.UpSize {
				if u := m.Uploads[op.Handle]; u != nil {
					wantRepo = u.Repo
				}
			}
			if call.Repo != wantRepo && call.Method != "Repositories" {
				fail("backend-wrong-repo", "the backend was called for repository %q, the caller named %q (%s)", call.Repo, wantRepo, call)
			}
			if call.Method == "MountBlob" && call.Repo2 != op.Repo2 {
				fail("backend-wrong-repo", "mount source %q, the caller named %q", call.Repo2, op.Repo2)
			}
			if !isUpload && call.Method != "Repositories" && call.Method != "Tags" && op.Digest != "" && call.Digest != "" && call.Digest != op.Digest {
				fail("backend-wrong-digest", "the backend was called with digest %s, the caller passed %s", call.Digest, op.Digest)
			}
			if call.Tag != "" && call.Tag != op.Tag {
				fail("backend-wrong-tag", "the backend was called with tag %q, the caller passed %q", call.Tag, op.Tag)
			}
			if len(allowed) > 0 && call.Method == allowed[0] {
				sawPrimary = true
				switch call.Method {
				case "PushManifest":
					if !bytes.Equal(call.Data, op.Data) || call.MT != op.MediaType || call.Tag != op.Tag {
						fail("backend-wrong-args", "PushManifest reached the backend with different content, media type or tag")
					}
				case "GetBlobRange":
					wantO1 := op.O1
					if wantO1 < 0 {
						wantO1 = -1
					}
					if call.O0 != op.O0 || call.O1 != wantO1 {
						fail("backend-wrong-args", "GetBlobRange(%d,%d) reached the backend as (%d,%d)", op.O0, op.O1, call.O0, call.O1)
					}
				case "Repositories", "Tags":
					if !sawListStart(calls, call.Method, op.Start) {
						fail("backend-wrong-args", "%s(start %q): the first backend call used start %q", call.Method, op.Start, calls[0].Start)
					}
				}
			}
		}
		if rH.Err == nil && rH.ListErr == nil && len(allowed) > 0 && !sawPrimary {
			okWithout := op.Kind == reg.GetBlobRange || op.Kind == reg.UpWrite || op.Kind == reg.UpClose || op.Kind == reg.UpResume
			if !okWithout {
				fail("backend-not-called", "the call succeeded but the backend never received %s", allowed[0])
			}
		}
	}
}

func sawListStart(calls []reg.Call, method, start string) bool {
	for _, c := range calls {
		if c.Method == method {
			return c.Start == start
		}
	}
	return false
}

func okWord(err error) string {
	if err == nil {
		return "succeeded"
	}
	return "failed (" + reg.CodeOf(err) + ")"
}
