package props

import (
	"bytes"
	"context"
	"errors"
	"fmt"
	"slices"

	"cuelabs.dev/go/oci/ociregistry"
	"cuelabs.dev/go/oci/ociregistry/ocimem"

	"verifsim/core"
	"verifsim/reg"
)

// C03: the HTTP client+server are transparent.
//
// Twin worlds are fed the same generated history: world D is an ocimem called
// directly; world H is an identical ocimem behind a recording wrapper, one or two
// ociclient->simnet->ociserver hops, optionally ocidebug, under a seeded server
// option set. Every call must yield the same success/failure, the same standard
// error codes (status class for the HEAD-based resolves), the same descriptor and
// the same bytes; and the backend behind the server must see exactly the
// caller's operations and arguments.
func init() {
	core.Components["C03"] = [2][]string{stdReal, stdStub}
	core.Rules["C03"] = "one evaluation = one generated history of 10-40 Interface/BlobWriter calls executed in two worlds (direct ocimem vs. ocimem behind recording wrapper + HTTP hop(s)); distinct = distinct sequence of (operation kind, outcome code) tokens; non-trivial = at least one operation issued"
	core.Assumptions["C03"] = []string{
		"transparency is a fault-free relation: only meaning-preserving network behaviours (1-byte reads, EOF with data) are varied here",
		"histories are restricted to calls HTTP can carry faithfully: well-formed names for reads, non-empty manifest media types, disciplined BlobWriter use (close before resume, true offsets)",
	}
	for _, k := range []struct {
		kind string
		w    int
	}{{"mem+rec+http1", 4}, {"mem+rec+http1+debug", 1}, {"mem+rec+http2", 2}, {"mem+rec+debug+http1", 1}} {
		k := k
		register(&core.Scenario{Name: "c03-" + k.kind, Property: "C03", Weight: k.w, Run: func(env *core.Env) { c03(env, k.kind) }})
	}
	register(&core.Scenario{Name: "c03-altalgo-content", Property: "C03", Weight: 1, Run: c03altalgo})
}

// c03altalgo: content addressed by sha384 / sha512 digests (the in-memory registry
// stores sha256 only, so the backend here is a small table behind
// ociregistry.Funcs). Every read through the HTTP hop(s) must give what the same
// read gives directly.
func c03altalgo(env *core.Env) {
	c := env.C
	ctx := context.Background()
	type item struct {
		data     []byte
		desc     ociregistry.Descriptor
		manifest bool
	}
	repo := repoNames[c.Int("repo", len(repoNames))]
	items := map[ociregistry.Digest]*item{}
	tags := map[string]ociregistry.Digest{}
	var order []ociregistry.Digest
	for i, n := 0, c.Range("nitems", 1, 5); i < n; i++ {
		algo := []string{"sha256", "sha384", "sha512"}[c.Int("algo", 3)]
		it := &item{manifest: c.Bool("manifest", 1, 2)}
		if it.manifest {
			it.data = []byte(fmt.Sprintf(`{"verif":%d,"pad":%q}`, c.Int("uniq", 1<<20), string(c.Bytes("pad", []int{0, 10, 200}[c.Int("padlen", 3)]))))
			it.desc.MediaType = "application/x-verif.opaque"
		} else {
			it.data = c.Bytes("blob", []int{0, 1, 7, 300, 70000}[c.Int("bloblen", 5)])
			it.desc.MediaType = "application/octet-stream"
		}
		it.desc.Digest, it.desc.Size = reg.Sum(algo, it.data), int64(len(it.data))
		items[it.desc.Digest] = it
		order = append(order, it.desc.Digest)
		if it.manifest && c.Bool("tagged", 1, 2) {
			tags[tagNames[c.Int("tag", len(tagNames))]] = it.desc.Digest
		}
	}
	lookup := func(rp string, d ociregistry.Digest, manifest bool) (*item, error) {
		if rp != repo {
			return nil, ociregistry.ErrNameUnknown
		}
		it := items[d]
		if it == nil || it.manifest != manifest {
			if manifest {
				return nil, ociregistry.ErrManifestUnknown
			}
			return nil, ociregistry.ErrBlobUnknown
		}
		return it, nil
	}
	open := func(it *item, err error) (ociregistry.BlobReader, error) {
		if err != nil {
			return nil, err
		}
		return ocimem.NewBytesReader(it.data, it.desc), nil
	}
	descOf := func(it *item, err error) (ociregistry.Descriptor, error) {
		if err != nil {
			return ociregistry.Descriptor{}, err
		}
		return it.desc, nil
	}
	byTag := func(rp, tag string) (*item, error) {
		d, ok := tags[tag]
		if rp != repo {
			return nil, ociregistry.ErrNameUnknown
		}
		if !ok {
			return nil, ociregistry.ErrManifestUnknown
		}
		return items[d], nil
	}
	backend := &ociregistry.Funcs{
		GetBlob_: func(ctx context.Context, rp string, d ociregistry.Digest) (ociregistry.BlobReader, error) {
			return open(lookup(rp, d, false))
		},
		GetBlobRange_: func(ctx context.Context, rp string, d ociregistry.Digest, o0, o1 int64) (ociregistry.BlobReader, error) {
			it, err := lookup(rp, d, false)
			if err != nil {
				return nil, err
			}
			if o1 < 0 || o1 > it.desc.Size {
				o1 = it.desc.Size
			}
			if o0 < 0 || o0 > o1 {
				return nil, fmt.Errorf("invalid range")
			}
			return ocimem.NewBytesReader(it.data[o0:o1], it.desc), nil
		},
		GetManifest_: func(ctx context.Context, rp string, d ociregistry.Digest) (ociregistry.BlobReader, error) {
			return open(lookup(rp, d, true))
		},
		GetTag_: func(ctx context.Context, rp, tag string) (ociregistry.BlobReader, error) { return open(byTag(rp, tag)) },
		ResolveBlob_: func(ctx context.Context, rp string, d ociregistry.Digest) (ociregistry.Descriptor, error) {
			return descOf(lookup(rp, d, false))
		},
		ResolveManifest_: func(ctx context.Context, rp string, d ociregistry.Digest) (ociregistry.Descriptor, error) {
			return descOf(lookup(rp, d, true))
		},
		ResolveTag_: func(ctx context.Context, rp, tag string) (ociregistry.Descriptor, error) {
			return descOf(byTag(rp, tag))
		},
	}
	o := &stackOpts{OneByte: c.Bool("onebyte", 1, 10), EOFData: c.Bool("eofdata", 1, 4)}
	o.Server.OmitDigestFromTagGetResponse = c.Bool("omitdigest", 1, 3)
	var viaHTTP ociregistry.Interface = backend
	hops := c.Range("hops", 1, 2)
	for i := 0; i < hops; i++ {
		viaHTTP, _ = httpHop(env, viaHTTP, o, fmt.Sprintf("hop%d", i))
	}
	env.Sample("repo=%q items=%d tags=%d hops=%d omitdigest=%v", repo, len(items), len(tags), hops, o.Server.OmitDigestFromTagGetResponse)
	for i, n := 0, c.Range("nreads", 3, 12); i < n; i++ {
		d := order[c.Int("which", len(order))]
		it := items[d]
		op := &reg.Op{Repo: repo, Digest: d, StopAfter: -1, ContentFault: -1}
		switch {
		case it.manifest:
			op.Kind = []reg.Kind{reg.GetManifest, reg.ResolveManifest, reg.GetTag, reg.ResolveTag}[c.Int("mkind", 4)]
			if op.Kind == reg.GetTag || op.Kind == reg.ResolveTag {
				op.Tag = tagNames[c.Int("rtag", len(tagNames))]
			}
		default:
			op.Kind = []reg.Kind{reg.GetBlob, reg.ResolveBlob, reg.GetBlobRange}[c.Int("bkind", 3)]
			if op.Kind == reg.GetBlobRange && len(it.data) == 0 {
				op.Kind = reg.GetBlob // HTTP cannot express an empty range
			}
			if op.Kind == reg.GetBlobRange {
				op.O0 = int64(c.Int("o0", len(it.data)))
				op.O1 = []int64{-1, op.O0 + 1, it.desc.Size, it.desc.Size + 3}[c.Int("o1", 4)]
			}
		}
		if c.Bool("smallreads", 1, 3) {
			op.ReadSize = c.Range("readsize", 1, 9)
		}
		dres := reg.Exec(ctx, backend, op, nil)
		hres := reg.Exec(ctx, viaHTTP, op, nil)
		algo := string(d.Algorithm())
		env.Op(op.Kind.String() + ":" + algo + ":" + reg.CodeOf(hres.Err))
		env.Logf("%d %s\n    direct: %s\n    http:   %s", i, op, dres, hres)
		class := func(k string) string { return "C03/altalgo/" + op.Kind.String() + "/" + k + "/" + algo }
		if (dres.Err == nil) != (hres.Err == nil) {
			env.Failf(class("outcome-differs"), "%s (%s content): directly %s, over %d HTTP hop(s) %s", op, algo, dres, hops, hres)
		}
		if dres.Err != nil {
			continue
		}
		if (dres.ReadErr == nil) != (hres.ReadErr == nil) {
			env.Failf(class("read-outcome-differs"), "%s (%s content): reading ended with %v directly and with %v over HTTP", op, algo, dres.ReadErr, hres.ReadErr)
		}
		if !bytes.Equal(dres.Data, hres.Data) {
			env.Failf(class("bytes-differ"), "%s (%s content): %d bytes directly, %d other bytes over HTTP", op, algo, len(dres.Data), len(hres.Data))
		}
		if dres.Desc.Digest != hres.Desc.Digest || dres.Desc.Size != hres.Desc.Size || dres.Desc.MediaType != hres.Desc.MediaType {
			// (a tag GET without a digest header leaves the client to compute one, which can
			// only be the canonical algorithm's)
			if !(o.Server.OmitDigestFromTagGetResponse && (op.Kind == reg.GetTag) && dres.Desc.Digest.Algorithm() != "sha256" && dres.Desc.Size == hres.Desc.Size && dres.Desc.MediaType == hres.Desc.MediaType) {
				env.Failf(class("descriptor-differs"), "%s (%s content): descriptor %+v directly, %+v over HTTP", op, algo, dres.Desc, hres.Desc)
			}
		}
	}
}

// statusOf: the HTTP status an error maps to on the wire.
func statusOf(err error) int {
	var he ociregistry.HTTPError
	if errors.As(err, &he) {
		return he.StatusCode()
	}
	_, st := ociregistry.MarshalError(err)
	return st
}

// allowedCalls: which backend methods an operation may cause, the first being the
// primary one that must carry the caller's arguments.
var allowedCalls = map[reg.Kind][]string{
	reg.GetBlob:         {"GetBlob"},
	reg.GetBlobRange:    {"GetBlobRange", "GetBlob"},
	reg.GetManifest:     {"GetManifest"},
	reg.GetTag:          {"GetTag", "ResolveTag"},
	reg.ResolveBlob:     {"ResolveBlob"},
	reg.ResolveManifest: {"ResolveManifest"},
	reg.ResolveTag:      {"ResolveTag"},
	reg.PushBlob:        {"PushBlobChunked", "PushBlobChunkedResume"},
	reg.MountBlob:       {"MountBlob"},
	reg.PushManifest:    {"PushManifest"},
	reg.DeleteBlob:      {"DeleteBlob"},
	reg.DeleteManifest:  {"DeleteManifest"},
	reg.DeleteTag:       {"DeleteTag"},
	reg.Repositories:    {"Repositories"},
	reg.Tags:            {"Tags"},
	reg.Referrers:       {"Referrers"},
	reg.UpStart:         {"PushBlobChunked"},
	reg.UpResume:        {"PushBlobChunkedResume"},
	reg.UpWrite:         {"PushBlobChunkedResume"},
	reg.UpClose:         {"PushBlobChunkedResume"},
	reg.UpCommit:        {"PushBlobChunkedResume"},
	reg.UpCancel:        {},
	reg.UpSize:          {},
}

func c03(env *core.Env, kind string) {
	c := env.C
	ctx := context.Background()
	immutable := c.Bool("immutable", 1, 3)
	o := &stackOpts{Kind: kind, Immutable: immutable, OneByte: c.Bool("onebyte", 1, 10), EOFData: c.Bool("eofdata", 1, 4),
		PageSize: []int{0, 1, 2, 3, 5, 1000}[c.Int("pagesize", 6)]}
	o.Server.OmitDigestFromTagGetResponse = c.Bool("omitdigest", 1, 3)
	o.Server.OmitLinkHeaderFromResponses = c.Bool("omitlink", 1, 3)
	o.Server.DisableSinglePostUpload = c.Bool("nosinglepost", 1, 3)
	if c.Bool("maxpage", 1, 4) {
		o.Server.MaxListPageSize = 1000
	}
	// a registry may give an upload a new id with every chunk: the id to go on with
	// is the one the writer reports after the data has gone in
	o.RotatingUploadIDs = c.Bool("backend.rotating-upload-ids", 1, 4)
	st := buildStack(env, o)
	var direct ociregistry.Interface = newMem(immutable)
	if o.RotatingUploadIDs {
		direct = reg.RotatingIDs(direct)
		env.Probe("c03:backend-rotates-upload-ids")
	}
	m := reg.NewModel(immutable)
	m.StrictCodes = false
	cfg := reg.GenConfig{
		Repos:      pickSome(c, "repos", repoNames, 1, 3),
		Tags:       pickSome(c, "tags", tagNames, 1, 3),
		MaxBlob:    300,
		Weights:    reg.DefaultWeights(),
		BadPush:    false,
		Motifs:     true,
		AltAlgo:    true,
		Uploads:    true,
		SmallReads: true,
		HTTPSafe:   true,
		Stops:      true,
	}
	if c.Bool("bigmanifests", 1, 5) {
		cfg.MaxBlob = 140000
	}
	n := c.Range("nops", 10, 40)
	if env.Tier == "thorough" {
		n = c.Range("nops", 10, 90)
		cfg.Repos = pickSome(c, "repos", repoNames, 1, 5)
	}
	env.Sample("stack=%s immutableTags=%v repos=%v ops=%d pageSize=%d server=%+v", kind, immutable, cfg.Repos, n, o.PageSize, o.Server)
	g := reg.NewGen(c, m, cfg)
	hD, hH := reg.NewHandles(), reg.NewHandles()
	for i := 0; i < n; i++ {
		op := g.Next()
		if op.Kind == reg.PushManifest && len(op.Data) < 131072 && c.Bool("padmanifest", 1, 12) && op.MediaType != reg.MTImageManifest && op.MediaType != reg.MTImageIndex {
			// manifests on both sides of the client's in-memory threshold
			op.Data = append(op.Data, bytes.Repeat([]byte(" "), 131080-len(op.Data)+c.Int("pad", 5))...)
		}
		if reg.IsRead(op.Kind) && c.Bool("overlap", 1, 5) {
			// two readers open at the same time: the second call must not disturb the first
			op2 := g.NextRead()
			if op2 != nil {
				d1, d2 := reg.ExecOverlapped(ctx, direct, op, op2)
				h1, h2 := reg.ExecOverlapped(ctx, st.Reg, op, op2)
				env.Op("overlapped:" + op.Kind.String() + "+" + op2.Kind.String())
				env.Probe("c03:overlapped-readers")
				env.Logf("%d overlapped %s || %s\n    direct: %s | %s\n    http:   %s | %s", i, op, op2, d1, d2, h1, h2)
				for k, pair := range [][2]*reg.Res{{d1, h1}, {d2, h2}} {
					d, h := pair[0], pair[1]
					o := []*reg.Op{op, op2}[k]
					if o.Kind == reg.GetBlobRange && o.O1 >= 0 && o.O0 >= o.O1 {
						continue
					}
					if (d.Err == nil) != (h.Err == nil) || (d.ReadErr == nil) != (h.ReadErr == nil) || !bytes.Equal(d.Data, h.Data) {
						env.Failf("C03/overlapped-readers/"+o.Kind.String(), "step %d: %s and %s were opened together and then drained in order; reader %d (%s) behaves differently over HTTP\n  direct: %s\n  http:   %s", i, op, op2, k+1, o, d, h)
					}
				}
				continue
			}
		}
		rD := reg.Exec(ctx, direct, op, hD)
		st.Tracker.Reset()
		rH := reg.Exec(ctx, st.Reg, op, hH)
		calls := slices.Clone(st.Tracker.Calls)
		m.Step(op, rD) // keeps the generator's picture of the registry current
		env.Op(op.Kind.String() + ":" + reg.CodeOf(rD.Err))
		env.Logf("%d %s\n    direct: %s\n    http:   %s", i, op, rD, rH)
		env.Sample("%s -> direct: %s | http: %s", op, rD, rH)
		fail := func(kind string, format string, a ...any) {
			env.Failf(classOf("C03", op, "")+"/"+kind, "step %d: %s\n  direct: %s\n  http:   %s\n  %s", i, op, rD, rH, fmt.Sprintf(format, a...))
		}
		if op.Kind == reg.GetBlobRange && op.O1 >= 0 && op.O0 >= op.O1 {
			// HTTP cannot express an empty or inverted range: outside the relation
			env.Probe("c03:degenerate-range-skipped")
			continue
		}
		// "A repository that holds no content may be reported either as unknown or as
		// empty": the two worlds may differ in which empty repositories exist (a
		// refused push over HTTP has already opened an upload session).
		lookedUp := op.Repo
		if op.Kind == reg.MountBlob {
			lookedUp = op.Repo2
		}
		emptyRepo := lookedUp != "" && !m.HasContent(lookedUp)
		unknownish := func(err error) bool {
			return errors.Is(err, ociregistry.ErrNameUnknown) || errors.Is(err, ociregistry.ErrBlobUnknown) || errors.Is(err, ociregistry.ErrManifestUnknown)
		}
		if emptyRepo && (op.Kind == reg.Tags || op.Kind == reg.Referrers) {
			okD := rD.ListErr == nil && len(rD.Items) == 0 && len(rD.Descs) == 0 || rD.ListErr != nil && unknownish(rD.ListErr)
			okH := rH.ListErr == nil && len(rH.Items) == 0 && len(rH.Descs) == 0 || rH.ListErr != nil && unknownish(rH.ListErr)
			if okD && okH {
				continue
			}
		}
		if op.Kind == reg.Repositories {
			keep := func(xs []string) []string {
				var out []string
				for _, x := range xs {
					if m.HasContent(x) {
						out = append(out, x)
					}
				}
				return out
			}
			if op.StopAfter < 0 {
				rD.Items, rH.Items = keep(rD.Items), keep(rH.Items)
			} else if !slices.Equal(rD.Items, rH.Items) {
				// with an early-stopping consumer, optional empty repositories shift the
				// prefix; only check that both are prefixes of a legitimate listing (C05)
				continue
			}
		}
		// success / failure
		if (rD.Err == nil) != (rH.Err == nil) {
			fail("success-differs", "the call %s directly but %s over HTTP", okWord(rD.Err), okWord(rH.Err))
		}
		if (rD.ListErr == nil) != (rH.ListErr == nil) {
			fail("listing-error-differs", "the listing %s directly but %s over HTTP", okWord(rD.ListErr), okWord(rH.ListErr))
		}
		// error identity
		for _, pair := range [][2]error{{rD.Err, rH.Err}, {rD.ListErr, rH.ListErr}} {
			d, h := pair[0], pair[1]
			if d == nil || h == nil {
				continue
			}
			switch op.Kind {
			case reg.ResolveBlob, reg.ResolveManifest, reg.ResolveTag:
				if statusOf(d)/100 != statusOf(h)/100 {
					fail("status-class-differs", "HTTP status class %d directly vs %d over HTTP", statusOf(d), statusOf(h))
				}
			default:
				if emptyRepo && unknownish(d) && unknownish(h) {
					continue
				}
				if op.Kind == reg.PushManifest && !reg.WellFormed(op.MediaType, op.Data) {
					// The server refuses malformed OCI JSON before it consults the backend,
					// so when the backend has another reason to refuse (tag immutability)
					// the two may name different reasons. Both refuse; only that is compared.
					env.Probe("c03:malformed-manifest-code-not-compared")
					continue
				}
				if reg.CodeOf(d) != reg.CodeOf(h) {
					fail("code-differs", "error code %s directly vs %s over HTTP", reg.CodeOf(d), reg.CodeOf(h))
				}
			}
		}
		if rD.Err == nil && rH.Err == nil {
			// descriptors
			if rD.Desc.Digest != rH.Desc.Digest {
				fail("digest-differs", "descriptor digest %s vs %s", rD.Desc.Digest, rH.Desc.Digest)
			}
			sizeOK := rD.Desc.Size == rH.Desc.Size || (op.Kind == reg.MountBlob && rH.Desc.Size == 0)
			if !sizeOK {
				fail("size-differs", "descriptor size %d vs %d", rD.Desc.Size, rH.Desc.Size)
			}
			switch op.Kind {
			case reg.GetManifest, reg.GetTag, reg.ResolveManifest, reg.ResolveTag, reg.PushManifest:
				if rD.Desc.MediaType != rH.Desc.MediaType {
					fail("mediatype-differs", "media type %q vs %q", rD.Desc.MediaType, rH.Desc.MediaType)
				}
			}
			if !bytes.Equal(rD.Data, rH.Data) || (rD.ReadErr == nil) != (rH.ReadErr == nil) {
				fail("bytes-differ", "%d bytes (read error %v) vs %d bytes (read error %v)", len(rD.Data), rD.ReadErr, len(rH.Data), rH.ReadErr)
			}
			if !slices.Equal(rD.Items, rH.Items) {
				fail("items-differ", "listing %v vs %v", rD.Items, rH.Items)
			}
			if len(rD.Descs) != len(rH.Descs) {
				fail("items-differ", "%d referrers vs %d", len(rD.Descs), len(rH.Descs))
			}
			for j := range rD.Descs {
				a, b := rD.Descs[j], rH.Descs[j]
				if a.Digest != b.Digest || a.Size != b.Size || a.MediaType != b.MediaType {
					fail("items-differ", "referrer %d: %v vs %v", j, a, b)
				}
			}
			if op.Kind == reg.UpWrite && rD.N != rH.N {
				fail("write-count-differs", "Write returned %d vs %d", rD.N, rH.N)
			}
			if (op.Kind == reg.UpWrite || op.Kind == reg.UpResume || op.Kind == reg.UpSize || op.Kind == reg.UpStart) && rD.Size != rH.Size {
				fail("writer-size-differs", "writer size %d vs %d", rD.Size, rH.Size)
			}
			if rH.ExtraCalls > 0 {
				fail("consumer-called-after-stop", "the iterator called its consumer %d more times after it declined", rH.ExtraCalls)
			}
		}
		// what the backend behind the server saw
		allowed := allowedCalls[op.Kind]
		sawPrimary := false
		for _, call := range calls {
			if !slices.Contains(allowed, call.Method) {
				fail("backend-foreign-call", "the backend received %s, which %s does not map to", call, op.Kind)
			}
			isUpload := call.Method == "PushBlobChunked" || call.Method == "PushBlobChunkedResume"
			wantRepo := op.Repo
			if op.Kind >= reg.UpResume && op.Kind <= reg.UpSize {
				if u := m.Uploads[op.Handle]; u != nil {
					wantRepo = u.Repo
				}
			}
			if call.Repo != wantRepo && call.Method != "Repositories" {
				fail("backend-wrong-repo", "the backend was called for repository %q, the caller named %q (%s)", call.Repo, wantRepo, call)
			}
			if call.Method == "MountBlob" && call.Repo2 != op.Repo2 {
				fail("backend-wrong-repo", "mount source %q, the caller named %q", call.Repo2, op.Repo2)
			}
			if !isUpload && call.Method != "Repositories" && call.Method != "Tags" && op.Digest != "" && call.Digest != "" && call.Digest != op.Digest {
				fail("backend-wrong-digest", "the backend was called with digest %s, the caller passed %s", call.Digest, op.Digest)
			}
			if call.Tag != "" && call.Tag != op.Tag {
				fail("backend-wrong-tag", "the backend was called with tag %q, the caller passed %q", call.Tag, op.Tag)
			}
			if len(allowed) > 0 && call.Method == allowed[0] {
				sawPrimary = true
				switch call.Method {
				case "PushManifest":
					if !bytes.Equal(call.Data, op.Data) || call.MT != op.MediaType || call.Tag != op.Tag {
						fail("backend-wrong-args", "PushManifest reached the backend with different content, media type or tag")
					}
				case "GetBlobRange":
					wantO1 := op.O1
					if wantO1 < 0 {
						wantO1 = -1
					}
					if call.O0 != op.O0 || call.O1 != wantO1 {
						fail("backend-wrong-args", "GetBlobRange(%d,%d) reached the backend as (%d,%d)", op.O0, op.O1, call.O0, call.O1)
					}
				case "Repositories", "Tags":
					if !sawListStart(calls, call.Method, op.Start) {
						fail("backend-wrong-args", "%s(start %q): the first backend call used start %q", call.Method, op.Start, calls[0].Start)
					}
				}
			}
		}
		if rH.Err == nil && rH.ListErr == nil && len(allowed) > 0 && !sawPrimary {
			okWithout := op.Kind == reg.GetBlobRange || op.Kind == reg.UpWrite || op.Kind == reg.UpClose || op.Kind == reg.UpResume
			if !okWithout {
				fail("backend-not-called", "the call succeeded but the backend never received %s", allowed[0])
			}
		}
	}
}

func sawListStart(calls []reg.Call, method, start string) bool {
	for _, c := range calls {
		if c.Method == method {
			return c.Start == start
		}
	}
	return false
}

func okWord(err error) string {
	if err == nil {
		return "succeeded"
	}
	return "failed (" + reg.CodeOf(err) + ")"
}
