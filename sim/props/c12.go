package props

import (
	"bytes"
	"context"
	"errors"
	"fmt"
	"hash/fnv"
	"slices"
	"strings"

	"cuelabs.dev/go/oci/ociregistry"
	"cuelabs.dev/go/oci/ociregistry/ocifilter"
	"cuelabs.dev/go/oci/ociregistry/ocimem"

	"verifsim/core"
	"verifsim/reg"
)

// C12: access-checking / selecting wrappers never let a rejected repository through.
//
// Sequential: there is no schedule dimension here (DESIGN.md says so). The
// simulator contributes generated histories, the recording backend monitor,
// backend iterator faults, and replay.
func init() {
	core.Components["C12"] = [2][]string{
		{"ocifilter.AccessChecker", "ocifilter.Select", "ociregistry.Funcs (embedded nil table)", "ocimem as wrapped registry and as twin"},
		{"none (direct calls); backend listing faults: reg.Wrap"}}
	core.Rules["C12"] = "one evaluation = one generated history of 10-40 calls (all 18 methods and BlobWriter use) through AccessChecker or Select with a seeded pure policy over (name, access kind), against a recording backend and an unwrapped twin; distinct = distinct sequence of (operation kind, allowed/rejected, outcome) tokens; non-trivial = at least one call issued"
	register(&core.Scenario{Name: "c12-access-checker", Property: "C12", Weight: 1, Run: func(env *core.Env) { c12(env, false) }})
	register(&core.Scenario{Name: "c12-select", Property: "C12", Weight: 1, Run: func(env *core.Env) { c12(env, true) }})
}

func accessKindOf(k reg.Kind) ocifilter.AccessKind {
	switch k {
	case reg.GetBlob, reg.GetBlobRange, reg.GetManifest, reg.GetTag, reg.ResolveBlob, reg.ResolveManifest, reg.ResolveTag:
		return ocifilter.AccessRead
	case reg.DeleteBlob, reg.DeleteManifest, reg.DeleteTag:
		return ocifilter.AccessDelete
	case reg.Repositories, reg.Tags, reg.Referrers:
		return ocifilter.AccessList
	}
	return ocifilter.AccessWrite
}

func c12(env *core.Env, sel bool) {
	c := env.C
	ctx := context.Background()
	salt := uint64(c.Int("policy.salt", 1<<20))
	denyRate := uint64(c.Range("policy.denyrate", 2, 5))
	denied := func(name string, kind ocifilter.AccessKind) bool {
		h := fnv.New64a()
		if sel {
			fmt.Fprintf(h, "%d|%s", salt, name) // Select's policy depends on the name only
		} else {
			fmt.Fprintf(h, "%d|%s|%d", salt, name, kind)
		}
		return h.Sum64()%denyRate == 0
	}
	policyErr := func(name string, kind ocifilter.AccessKind) error {
		return ociregistry.NewError(fmt.Sprintf("policy rejects %s/%d", name, kind), "VERIF_POLICY", nil)
	}
	immutable := c.Bool("immutable", 1, 4)
	mem, twin := ocimem.NewWithConfig(&ocimem.Config{ImmutableTags: immutable}), ocimem.NewWithConfig(&ocimem.Config{ImmutableTags: immutable})
	tracker := reg.NewTracker()
	var plan *reg.FaultPlan
	iterFault := c.Bool("iterfault", 1, 4)
	firedIter := false
	iterAt := 0
	if iterFault {
		at := c.Range("iterfault.at", 0, 3)
		iterAt = at
		plan = &reg.FaultPlan{IterFailAfter: func(call *reg.Call) (int, error) {
			if call.Method != "Repositories" {
				return -1, nil
			}
			firedIter = true
			env.Fault("backend-iterator-fails")
			return at, errors.New("listing broke")
		}}
	}
	backend := reg.Wrap(mem, tracker, plan)
	// The wrapped registry may itself be an access-checking wrapper (configurations nest
	// them). Seen from the outer wrapper the inner one is the wrapped registry: it is
	// entered when its policy function is asked anything.
	nested := c.Bool("nested", 1, 4)
	var innerAsked []string
	var twinTarget ociregistry.Interface = twin
	innerHides := func(string) bool { return false }
	if nested {
		salt2 := uint64(c.Int("policy.inner.salt", 1<<20))
		innerSel := c.Bool("policy.inner.select", 1, 2)
		denied2 := func(name string, kind ocifilter.AccessKind) bool {
			h := fnv.New64a()
			if innerSel {
				fmt.Fprintf(h, "inner|%d|%s", salt2, name)
			} else {
				fmt.Fprintf(h, "inner|%d|%s|%d", salt2, name, kind)
			}
			return h.Sum64()%5 == 0
		}
		inner := func(r ociregistry.Interface, record bool) ociregistry.Interface {
			if innerSel {
				return ocifilter.Select(r, func(name string) bool {
					if record {
						innerAsked = append(innerAsked, name)
					}
					return !denied2(name, 0)
				})
			}
			return ocifilter.AccessChecker(r, func(name string, kind ocifilter.AccessKind) error {
				if record {
					innerAsked = append(innerAsked, fmt.Sprintf("%s/%d", name, kind))
				}
				if denied2(name, kind) {
					return ociregistry.NewError(fmt.Sprintf("inner policy rejects %s/%d", name, kind), "VERIF_INNER_POLICY", nil)
				}
				return nil
			})
		}
		backend = inner(backend, true)
		twinTarget = inner(twin, false)
		innerHides = func(name string) bool { return denied2(name, ocifilter.AccessRead) }
		env.Probe("c12:nested-wrappers")
	}
	var wrapped ociregistry.Interface
	if sel {
		wrapped = ocifilter.Select(backend, func(name string) bool { return !denied(name, 0) })
	} else {
		wrapped = ocifilter.AccessChecker(backend, func(name string, kind ocifilter.AccessKind) error {
			if denied(name, kind) {
				return policyErr(name, kind)
			}
			return nil
		})
	}
	m := reg.NewModel(immutable)
	m.StrictCodes = false
	cfg := reg.GenConfig{
		Repos:      pickSome(c, "repos", repoNames, 2, 6),
		Tags:       pickSome(c, "tags", tagNames, 1, 3),
		MaxBlob:    60,
		Weights:    reg.DefaultWeights(),
		Uploads:    true,
		Stops:      true,
		SmallReads: false,
	}
	cfg.Weights[reg.Repositories] = 8
	cfg.Weights[reg.MountBlob] = 8
	g := reg.NewGen(c, m, cfg)
	hW, hT := reg.NewHandles(), reg.NewHandles()
	liveTwin := map[int]bool{}
	n := c.Range("nops", 10, 40)
	if env.Tier == "thorough" && c.Bool("deep", 1, 3) {
		n = c.Range("nops.deep", 40, 160)
	}
	env.Sample("select=%v immutableTags=%v repos=%v denyRate=1/%d", sel, immutable, cfg.Repos, denyRate)
	for i := 0; i < n; i++ {
		op := g.Next()
		kind := accessKindOf(op.Kind)
		// which (name, kind) pairs the policy is consulted for
		type chk struct {
			name string
			kind ocifilter.AccessKind
		}
		var checks []chk
		switch {
		case op.Kind == reg.Repositories:
			checks = []chk{{"*", ocifilter.AccessList}}
		case op.Kind == reg.MountBlob:
			checks = []chk{{op.Repo2, ocifilter.AccessRead}, {op.Repo, ocifilter.AccessWrite}}
		case op.Kind >= reg.UpWrite:
			// BlobWriter methods are not policy-checked again
		default:
			checks = []chk{{op.Repo, kind}}
		}
		// (a mount consults the policy twice; when it rejects both repositories the
		// statement does not say which rejection is the one reported)
		var rejected *chk
		var allRejected []chk
		for j := range checks {
			ck := checks[j]
			if sel && ck.name == "*" {
				continue // Select always allows listing as such
			}
			if denied(ck.name, ck.kind) {
				if rejected == nil {
					rejected = &checks[j]
				}
				allRejected = append(allRejected, ck)
			}
		}
		if c.Bool("probe.resume", 1, 6) {
			// resuming an upload the caller never started (empty, made-up or
			// foreign id) is a write to the named repository like any other
			repo := cfg.Repos[c.Int("probe.resume.repo", len(cfg.Repos))]
			id := []string{"", "no-such-upload", "0"}[c.Int("probe.resume.id", 3)]
			tracker.Reset()
			innerAsked = nil
			w, err := wrapped.PushBlobChunkedResume(ctx, repo, id, 0, 0)
			calls := slices.Clone(tracker.Calls)
			if w != nil {
				w.Close()
			}
			env.Op(fmt.Sprintf("probe-resume:%v:%s", denied(repo, ocifilter.AccessWrite), reg.CodeOf(err)))
			env.Logf("%d probe PushBlobChunkedResume(%q, %q) -> %v (backend calls: %d)", i, repo, id, err, len(calls))
			w0 := map[bool]string{false: "checker", true: "select"}[sel]
			if denied(repo, ocifilter.AccessWrite) {
				if len(calls) > 0 {
					env.Failf("C12/"+w0+"/PushBlobChunkedResume/backend-reached", "PushBlobChunkedResume(%q, id %q): the policy rejects writes to %q but the wrapped registry was called: %s", repo, id, repo, calls[0])
				}
				if len(innerAsked) > 0 {
					env.Failf("C12/"+w0+"/PushBlobChunkedResume/backend-reached", "PushBlobChunkedResume(%q, id %q): the policy rejects writes to %q but the wrapped registry (an access checker itself) was entered: its policy was asked about %v", repo, id, repo, innerAsked)
				}
				if err == nil {
					env.Failf("C12/"+w0+"/PushBlobChunkedResume/rejection-not-reported", "PushBlobChunkedResume(%q, id %q): the policy rejects writes to %q but the call succeeded", repo, id, repo)
				}
			} else {
				// keep the twin in step (an upload names its repository into existence)
				if tw, terr := twinTarget.PushBlobChunkedResume(ctx, repo, id, 0, 0); terr == nil {
					tw.Close()
				} else if err == nil {
					env.Failf("C12/"+w0+"/PushBlobChunkedResume/differs-from-wrapped", "PushBlobChunkedResume(%q, id %q) is allowed and succeeded through the wrapper but fails directly: %v", repo, id, terr)
				}
				for _, call := range calls {
					if call.Repo != repo {
						env.Failf("C12/"+w0+"/PushBlobChunkedResume/backend-wrong-repo", "PushBlobChunkedResume(%q, id %q) reached the backend as %s", repo, id, call)
					}
				}
			}
		}
		if op.Kind >= reg.UpResume && !liveTwin[op.Handle] {
			// the upload was never started (PushBlobChunked was rejected): nothing to do
			continue
		}
		tracker.Reset()
		innerAsked = nil
		firedIter = false
		rW := reg.Exec(ctx, wrapped, op, hW)
		calls := slices.Clone(tracker.Calls)
		state := "allowed"
		if rejected != nil {
			state = "rejected"
		}
		env.Op(op.Kind.String() + ":" + state + ":" + reg.CodeOf(rW.Err))
		env.Logf("%d %s [%s] -> %s (backend calls: %d)", i, op, state, rW, len(calls))
		env.Sample("%s [%s] -> %s", op, state, rW)
		class := func(k string) string {
			w := "checker"
			if sel {
				w = "select"
			}
			return "C12/" + w + "/" + op.Kind.String() + "/" + k
		}
		if rejected != nil {
			if len(calls) > 0 {
				env.Failf(class("backend-reached"), "%s: the policy rejects (%q, kind %d) but the wrapped registry was called: %s", op, rejected.name, rejected.kind, calls[0])
			}
			if len(innerAsked) > 0 {
				env.Failf(class("backend-reached"), "%s: the policy rejects (%q, kind %d) but the wrapped registry (an access checker itself) was entered: its policy was asked about %v", op, rejected.name, rejected.kind, innerAsked)
			}
			err := rW.Err
			if err == nil {
				err = rW.ListErr
			}
			if err == nil {
				env.Failf(class("rejection-not-reported"), "%s: the policy rejects (%q, kind %d) but the call succeeded: %s", op, rejected.name, rejected.kind, rW)
			}
			if sel {
				var wants []string
				ok := false
				for _, rj := range allRejected {
					want := ociregistry.ErrNameUnknown
					if rj.kind == ocifilter.AccessWrite {
						want = ociregistry.ErrDenied
					}
					wants = append(wants, want.Code())
					ok = ok || errors.Is(err, want)
				}
				if !ok {
					env.Failf(class("wrong-rejection-error"), "%s: rejected (%q, kind %d) with %s, want %s", op, rejected.name, rejected.kind, reg.CodeOf(err), strings.Join(wants, " or "))
				}
			} else {
				var oe ociregistry.Error
				if !errors.As(err, &oe) || oe.Code() != "VERIF_POLICY" {
					env.Failf(class("wrong-rejection-error"), "%s: rejected (%q, kind %d) but the error is not the policy's: %v", op, rejected.name, rejected.kind, err)
				}
			}
			if op.Kind == reg.UpStart {
				delete(liveTwin, op.Handle)
			}
			continue
		}
		// allowed: behaves exactly as the wrapped registry (the twin)
		rT := reg.Exec(ctx, twinTarget, op, hT)
		if op.Kind == reg.UpStart && rT.Err == nil {
			liveTwin[op.Handle] = true
		}
		m.Step(op, rT)
		if op.Kind == reg.Repositories {
			// the twin's listing, minus the repositories the policy hides
			var want []string
			full := reg.Exec(ctx, twinTarget, &reg.Op{Kind: reg.Repositories, Start: op.Start, StopAfter: -1, ContentFault: -1}, hT)
			for _, r := range full.Items {
				if !denied(r, ocifilter.AccessRead) {
					want = append(want, r)
				}
			}
			for _, r := range rW.Items {
				if denied(r, ocifilter.AccessRead) {
					env.Failf(class("rejected-repository-listed"), "%s lists %q which the policy rejects", op, r)
				}
			}
			if firedIter {
				if rW.ListErr == nil && !(op.StopAfter >= 0 && len(rW.Items) >= op.StopAfter) {
					env.Failf(class("backend-error-swallowed"), "%s: the wrapped listing failed but the filtered listing ended without error: %v", op, rW.Items)
				}
				// what the wrapped registry did list before it failed is listed (minus
				// the hidden names), as it would be without the wrapper
				raw := reg.Exec(ctx, twin, &reg.Op{Kind: reg.Repositories, Start: op.Start, StopAfter: -1, ContentFault: -1}, hT)
				before := raw.Items[:min(iterAt, len(raw.Items))]
				var wantBefore []string
				for _, r := range before {
					if !innerHides(r) && !denied(r, ocifilter.AccessRead) {
						wantBefore = append(wantBefore, r)
					}
				}
				if op.StopAfter >= 0 && len(wantBefore) > op.StopAfter {
					wantBefore = wantBefore[:op.StopAfter]
				}
				if !slices.Equal(rW.Items, wantBefore) && !(len(rW.Items) == 0 && len(wantBefore) == 0) {
					env.Failf(class("listing-differs-before-failure"), "%s: the wrapped listing delivered %v and then failed; through the wrapper %v arrived before the error, want %v", op, before, rW.Items, wantBefore)
				}
				if rW.ExtraCalls > 0 {
					env.Failf(class("consumer-called-after-end"), "%s: consumer called %d more time(s) after the end", op, rW.ExtraCalls)
				}
				continue
			}
			if op.StopAfter >= 0 && len(want) > op.StopAfter {
				want = want[:op.StopAfter]
			}
			if !slices.Equal(rW.Items, want) && !(len(rW.Items) == 0 && len(want) == 0) {
				env.Failf(class("listing-differs"), "%s through the wrapper: %v, want %v", op, rW.Items, want)
			}
			if rW.ExtraCalls > 0 {
				env.Failf(class("consumer-called-after-end"), "%s: consumer called %d more time(s) after it declined", op, rW.ExtraCalls)
			}
			continue
		}
		if (rW.Err == nil) != (rT.Err == nil) || reg.CodeOf(rW.Err) != reg.CodeOf(rT.Err) || (rW.ListErr == nil) != (rT.ListErr == nil) {
			env.Failf(class("differs-from-wrapped"), "%s is allowed but behaves differently through the wrapper:\n  wrapper: %s\n  direct:  %s", op, rW, rT)
		}
		if rW.Err == nil {
			if rW.Desc.Digest != rT.Desc.Digest || rW.Desc.Size != rT.Desc.Size || !bytes.Equal(rW.Data, rT.Data) || !slices.Equal(rW.Items, rT.Items) || len(rW.Descs) != len(rT.Descs) || rW.N != rT.N || rW.Size != rT.Size {
				env.Failf(class("differs-from-wrapped"), "%s is allowed but returns something else through the wrapper:\n  wrapper: %s\n  direct:  %s", op, rW, rT)
			}
		}
		// an allowed call reaches the backend only for the repositories the caller named
		for _, call := range calls {
			if call.Method == "Repositories" {
				continue
			}
			if call.Repo != op.Repo && op.Kind < reg.UpResume {
				env.Failf(class("backend-wrong-repo"), "%s reached the backend as %s", op, call)
			}
		}
	}
}
