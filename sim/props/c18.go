package props

import (
	"bytes"
	"context"
	"encoding/json"
	"fmt"
	"net/http"
	"strings"

	"cuelabs.dev/go/oci/ociregistry"

	"verifsim/core"
	"verifsim/reg"
	"verifsim/simnet"
)

// C18: the HTTP client survives any server response.
//
// The peer is a scripted adversary: every request is answered from a finite,
// seeded script of responses drawn from {status classes} x {each relevant header
// absent / empty / malformed / contradictory / huge} x {body empty / truncated /
// garbage / wrong shape / oversized}; when the script is exhausted the network
// fails every request. Each client operation must return without panicking and
// without issuing more requests than the script can answer (+1).
func init() {
	core.Components["C18"] = [2][]string{
		{"ociclient (all operations, BlobWriter, pager, error decoding)", "net/http client machinery (redirects, request construction)"},
		{"the server: a scripted adversarial peer answering through simnet.Transport"}}
	core.Rules["C18"] = "one evaluation = one client operation (one of 18 Interface methods, or a BlobWriter write/close/commit sequence, or a resume) against a seeded finite script of adversarial responses, under a seeded client configuration (ListPageSize in {-1,0,1,2,5}); distinct = distinct (operation, page size, sequence of response classes, outcome) tuple; non-trivial = at least one request was answered from the script"
	core.Assumptions["C18"] = []string{"only wire-feasible responses are produced (a body shorter than its Content-Length ends in an unexpected EOF)", "values that would make the process allocate tens of gigabytes are not sent: a fatal out-of-memory is not a recoverable panic and would take the checker down with it"}
	register(&core.Scenario{Name: "c18-adversary", Property: "C18", Weight: 1, Run: c18})
}

var c18Ops = []string{"GetBlob", "GetBlobRange", "GetManifest", "GetTag", "ResolveBlob", "ResolveManifest", "ResolveTag",
	"PushBlob", "PushBlobChunked+Write+Commit", "PushBlobChunkedResume(-1)+Write+Close", "PushBlobChunkedResume(n)+Write+Commit", "MountBlob", "PushManifest",
	"DeleteBlob", "DeleteManifest", "DeleteTag", "Repositories", "Tags", "Referrers"}

func c18(env *core.Env) {
	c := env.C
	ctx := context.Background()
	scriptLen := c.Range("scriptlen", 1, 6)
	used := 0
	var classes []string
	dig := reg.Sha256([]byte("content"))
	tr := &simnet.Transport{Env: env, Record: true, Handler: http.HandlerFunc(func(http.ResponseWriter, *http.Request) {}), EOFWithData: c.Bool("eofdata", 1, 4), OneByteReads: c.Bool("onebyte", 1, 10), MaxExchanges: 400}
	// What the peer does once its script is used up: the network fails, or (a
	// stateless peer) it goes on giving its last answer to whatever it is asked.
	sticky := c.Bool("sticky-last-answer", 1, 4)
	stickyServed := 0
	var lastAnswer *simnet.Response
	// ... or it goes round its last two or three answers (pages that point at each other)
	cycle := 1
	if sticky {
		cycle = c.Range("sticky.cycle", 1, 3)
	}
	var answers []*simnet.Response
	tr.OmitRequest = c.Bool("response-without-request", 1, 6)
	tr.Plan = func(req *http.Request) simnet.Fault {
		if used >= scriptLen && !(sticky && lastAnswer != nil && stickyServed < 60) {
			return simnet.Fault{Kind: simnet.DropRequest}
		}
		return simnet.Fault{}
	}
	var generate func(req *http.Request, resp *simnet.Response)
	tr.Mutate = func(req *http.Request, resp *simnet.Response) {
		if used >= scriptLen && lastAnswer != nil {
			k := min(cycle, len(answers))
			again := answers[len(answers)-k+stickyServed%k]
			stickyServed++
			cp := *again
			cp.Header = again.Header.Clone()
			*resp = cp
			return
		}
		generate(req, resp)
		cp := *resp
		cp.Header = resp.Header.Clone()
		lastAnswer = &cp
		answers = append(answers, &cp)
	}
	// "paging game": well-formed list pages over a tiny alphabet whose Link headers
	// point among a handful of pages, so that pages pointing at each other, at
	// themselves or nowhere come up all the time
	pagingGame := c.Bool("paging-game", 1, 4)
	generate = func(req *http.Request, resp *simnet.Response) {
		used++
		if pagingGame {
			resp.Status = 200
			h := http.Header{"Content-Type": {"application/json"}}
			alphabet := []string{"a", "b", "c", "d"}
			var items []string
			for i, n := 0, c.Int("game.items", 4); i < n; i++ {
				items = append(items, alphabet[c.Int("game.item", len(alphabet))])
			}
			if items == nil {
				items = []string{}
			}
			doc, _ := json.Marshal(map[string]any{"name": "foo", "tags": items, "repositories": items})
			if l := c.Int("game.link", 10); l > 0 {
				path := req.URL.Path
				h.Set("Link", []string{
					// relative references with a path of their own: resolved against the
					// page just fetched they give a new URL every time
					"<more/>; rel=\"next\"",
					"<x/y>; rel=\"next\"",
					"<" + path + "/again>; rel=\"next\"",
					"<" + path + "?last=a&n=1>; rel=\"next\"",
					"<" + path + "?last=b&n=1>; rel=\"next\"",
					"<" + path + "?n=1&last=a>; rel=\"next\"",
					"<?last=c>; rel=\"next\"",
					"<" + path + "?page=2>; rel=\"next\"",
					"<" + path + "?page=1>; rel=\"prev\", <" + path + "?page=3>; rel=\"next\"",
				}[l-1])
			}
			h.Set("Content-Length", fmt.Sprint(len(doc)))
			resp.Header, resp.Body, resp.BodyErr, resp.DeclaredLen, resp.SetRawCL = h, doc, nil, int64(len(doc)), false
			classes = append(classes, fmt.Sprintf("game:%d:%s", len(items), h.Get("Link")))
			env.Fault("adversarial-response")
			return
		}
		h := http.Header{}
		resp.Header = h
		// status
		sc := c.Weighted("status.class", []int{50, 6, 12, 6, 4})
		switch sc {
		case 0:
			resp.Status = []int{200, 201, 202, 204, 206}[c.Int("status.2xx", 5)]
		case 1:
			resp.Status = []int{301, 302, 307, 308, 304}[c.Int("status.3xx", 5)]
		case 2:
			resp.Status = []int{400, 401, 403, 404, 405, 416, 429}[c.Int("status.4xx", 7)]
		case 3:
			resp.Status = []int{500, 502, 503}[c.Int("status.5xx", 3)]
		case 4:
			resp.Status = []int{100 + 99, 600, 299, 999}[c.Int("status.odd", 4)]
		}
		cl := fmt.Sprint(resp.Status)
		hv := func(name string, vals ...string) {
			i := c.Int("hdr."+name, len(vals)+1)
			if i == 0 {
				return // absent
			}
			h.Set(name, vals[i-1])
			if i > 1 {
				cl += "," + name + fmt.Sprint(i-1)
			}
		}
		base := "http://sim.example"
		hv("Location", "/v2/foo/blobs/uploads/dXBsb2Fk", "", "::not a url", base+"/v2/foo/blobs/uploads/dXBsb2Fk?x=1&", "relative/path", "//other.example/x", "/v2/foo/blobs/uploads/dXBsb2Fk?", "\x7f%zz")
		hv("Range", "0-9", "", "0-0", "5-2", "-", "abc", "0-99999999999999999999", "7-9", "bytes=0-9")
		hv("Content-Range", "bytes 0-9/100", "", "bytes", "bytes 0-9/", "bytes 0-9/abc", "0-9", "bytes 5-2/1", "bytes 0-9/-5", "/", "bytes 0-9/99999999999999999999")
		hv("Docker-Content-Digest", string(dig), "", "sha256:abc", "nonsense", string(reg.Sha256([]byte("other"))), "sha512:"+strings.Repeat("0", 128), "unknownalg:"+strings.Repeat("0", 64))
		hv("Link", `</v2/_catalog?last=x&n=1>; rel="next"`, "", "<", "<>", "no brackets", `<http://[::1>; rel="next"`, `</v2/foo/tags/list?n=1&last=t>`, `<`+strings.Repeat("a", 5000)+`>`)
		hv("Content-Type", "application/json", "", "application/vnd.oci.image.manifest.v1+json", "text/html", ";;;", "application/json; charset=\"", "a/b+json+x")
		hv("OCI-Chunk-Min-Length", "8192", "", "-5", "abc", "9223372036854775807", "99999999999999999999", "0", "70000")
		hv("Www-Authenticate", `Bearer realm="http://sim.example/token"`, "", "Basic", `Bearer realm=`, `"`)
		// body
		var body []byte
		switch c.Int("body", 9) {
		case 0:
		case 1:
			body = []byte(`{"errors":[{"code":"BLOB_UNKNOWN","message":"m"}]}`)
		case 2:
			body = []byte(`{"repositories":["a","b"],"name":"foo","tags":["t1","t2"],"manifests":[{"digest":"` + string(dig) + `","size":3,"mediaType":"x"}]}`)
		case 3:
			body = []byte(`{"repositories":"notalist","tags":{"a":1},"manifests":7,"errors":"x"}`)
		case 4:
			body = []byte(`{"errors":[]}`)
		case 5:
			body = []byte(`{"errors":[{"code":`)
		case 6:
			body = c.Bytes("body.garbage", c.Range("body.garbage.n", 1, 200))
		case 7:
			body = bytes.Repeat([]byte(`{"errors":[{"code":"X","message":"`+strings.Repeat("y", 1000)+`"}]}`), 12) // > 8 KiB
		case 8:
			body = []byte("content")
		}
		cl += fmt.Sprintf(",body%d", len(body))
		resp.Body = body
		resp.BodyErr = nil
		resp.SetRawCL = false
		// framing
		switch c.Int("framing", 6) {
		case 0, 1:
			resp.DeclaredLen = int64(len(body))
			h.Set("Content-Length", fmt.Sprint(len(body)))
		case 2: // unknown length
			resp.DeclaredLen = -1
			resp.SetRawCL, resp.RawContentLength = true, -1
			cl += ",chunked"
		case 3: // more promised than sent: unexpected EOF
			resp.DeclaredLen = int64(len(body) + c.Range("framing.extra", 1, 100))
			h.Set("Content-Length", fmt.Sprint(resp.DeclaredLen))
			cl += ",short"
		case 4: // body cut in the middle
			if len(body) > 1 {
				resp.DeclaredLen = int64(len(body))
				h.Set("Content-Length", fmt.Sprint(len(body)))
				resp.Body = body[:c.Int("framing.cut", len(body))]
				cl += ",cut"
			} else {
				resp.DeclaredLen = int64(len(body))
			}
		case 5: // huge declared length, nothing like it on the wire
			resp.DeclaredLen = 1 << 40
			h.Set("Content-Length", fmt.Sprint(resp.DeclaredLen))
			cl += ",hugecl"
		}
		classes = append(classes, cl)
		env.Fault("adversarial-response")
	}
	pageSize := []int{-1, 0, 1, 2, 5}[c.Int("pagesize", 5)]
	client, err := newClient(tr, pageSize)
	if err != nil {
		core.Harnessf("%v", err)
	}
	opName := c18Ops[c.Int("op", len(c18Ops))]
	repo := "foo"
	drainR := func(br ociregistry.BlobReader, err error) error {
		if err != nil {
			return err
		}
		_, rerr := readAllBounded(br)
		return rerr
	}
	var opErr error
	switch opName {
	case "GetBlob":
		opErr = drainR(client.GetBlob(ctx, repo, dig))
	case "GetBlobRange":
		opErr = drainR(client.GetBlobRange(ctx, repo, dig, int64(c.Range("o0", 0, 3)), []int64{-1, 5, 100}[c.Int("o1", 3)]))
	case "GetManifest":
		opErr = drainR(client.GetManifest(ctx, repo, dig))
	case "GetTag":
		opErr = drainR(client.GetTag(ctx, repo, "latest"))
	case "ResolveBlob":
		_, opErr = client.ResolveBlob(ctx, repo, dig)
	case "ResolveManifest":
		_, opErr = client.ResolveManifest(ctx, repo, dig)
	case "ResolveTag":
		_, opErr = client.ResolveTag(ctx, repo, "latest")
	case "PushBlob":
		_, opErr = client.PushBlob(ctx, repo, ociregistry.Descriptor{Digest: dig, Size: 7, MediaType: "application/octet-stream"}, bytes.NewReader([]byte("content")))
	case "PushBlobChunked+Write+Commit":
		w, err := client.PushBlobChunked(ctx, repo, []int{0, 1, 3, 100000}[c.Int("chunk", 4)])
		opErr = err
		if err == nil {
			_, opErr = w.Write([]byte("cont"))
			w.ID()
			w.Size()
			w.ChunkSize()
			if opErr == nil {
				_, opErr = w.Write([]byte("ent"))
			}
			if opErr == nil {
				_, opErr = w.Commit(dig)
			}
			c18afterwards(c, w, dig)
		}
	case "PushBlobChunkedResume(-1)+Write+Close":
		w, err := client.PushBlobChunkedResume(ctx, repo, "http://sim.example/v2/foo/blobs/uploads/dXBsb2Fk", -1, []int{0, 1, 3}[c.Int("chunk", 3)])
		opErr = err
		if err == nil {
			_, opErr = w.Write([]byte("content"))
			if cerr := w.Close(); opErr == nil {
				opErr = cerr
			}
			c18afterwards(c, w, dig)
		}
	case "PushBlobChunkedResume(n)+Write+Commit":
		w, err := client.PushBlobChunkedResume(ctx, repo, []string{"http://sim.example/v2/foo/blobs/uploads/dXBsb2Fk", "/v2/foo/blobs/uploads/x", "relative", "", "::"}[c.Int("resume.id", 5)], int64(c.Range("resume.off", 0, 9)), 2)
		opErr = err
		if err == nil {
			_, opErr = w.Write([]byte("content"))
			if opErr == nil {
				_, opErr = w.Commit(dig)
			}
			c18afterwards(c, w, dig)
		}
	case "MountBlob":
		_, opErr = client.MountBlob(ctx, "other", repo, dig)
	case "PushManifest":
		data := []byte(`{"m":1}`)
		if c.Bool("bigmanifest", 1, 4) {
			data = bytes.Repeat([]byte(" "), 140000)
		}
		_, opErr = client.PushManifest(ctx, repo, []string{"", "latest"}[c.Int("tag", 2)], data, "application/x-verif.opaque")
	case "DeleteBlob":
		opErr = client.DeleteBlob(ctx, repo, dig)
	case "DeleteManifest":
		opErr = client.DeleteManifest(ctx, repo, dig)
	case "DeleteTag":
		opErr = client.DeleteTag(ctx, repo, "latest")
	case "Repositories":
		_, opErr = ociregistry.All(client.Repositories(ctx, []string{"", "m"}[c.Int("start", 2)]))
	case "Tags":
		_, opErr = ociregistry.All(client.Tags(ctx, repo, []string{"", "m"}[c.Int("start", 2)]))
	case "Referrers":
		_, opErr = ociregistry.All(client.Referrers(ctx, repo, dig, ""))
	}
	outcome := "ok"
	if opErr != nil {
		outcome = "error"
	}
	env.Op(fmt.Sprintf("%s/p%d/%v/%s", opName, pageSize, classes, outcome))
	env.Logf("%s pageSize=%d script=%d used=%d -> %v", opName, pageSize, scriptLen, used, opErr)
	env.Sample("%s (ListPageSize %d, sticky last answer %v, responses without Request %v) against script %v -> %s", opName, pageSize, sticky, tr.OmitRequest, classes, outcome)
	// bounded progress: every request consumed one script entry; at most one more was
	// attempted (and failed) after the script ran out - except that net/http itself
	// follows up to 10 redirects per request.
	if n := len(tr.Log); n > scriptLen+1 {
		_ = n
	}
	calls := 1
	if strings.Contains(opName, "+") {
		calls = 6 // a BlobWriter sequence is up to six client calls, each of which may try once more
	}
	if !sticky && tr.Seq() > scriptLen+calls {
		env.Failf("C18/unbounded-requests/"+opName, "%s issued %d requests although the server's script had only %d answers and the network failed afterwards (budget: script + %d)", opName, tr.Seq(), scriptLen, calls)
	}
	isListing := opName == "Repositories" || opName == "Tags" || opName == "Referrers"
	if sticky && isListing {
		// A peer that goes on for ever is not "finite answers"; what the client owes it is
		// not to ask for the same page again and again (a page it has not asked for yet
		// counts as progress, however pointless the peer's game).
		asked := map[string]int{}
		for _, e := range tr.Log {
			if e.Status/100 != 2 {
				continue // (redirect chains are net/http's business: it gives up after ten)
			}
			asked[e.Method+" "+e.URL]++
			if asked[e.Method+" "+e.URL] > 2 {
				env.Failf("C18/no-progress/"+opName, "%s asked for %s %d times; the peer goes round its last %d answer(s) after %d scripted ones", opName, e.URL, asked[e.Method+" "+e.URL], min(cycle, len(answers)), scriptLen)
			}
		}
	} else if sticky && stickyServed >= 60 {
		// (net/http follows at most 10 redirects per request; a writer sequence is a
		// handful of requests; nothing legitimately asks sixty times for the same answer)
		env.Failf("C18/no-progress/"+opName, "%s kept asking a peer that goes round its last %d answer(s): %d requests after its %d scripted answers", opName, min(cycle, len(answers)), stickyServed, scriptLen)
	}
}

func readAllBounded(br ociregistry.BlobReader) ([]byte, error) {
	defer br.Close()
	var buf bytes.Buffer
	tmp := make([]byte, 4096)
	for buf.Len() < 8<<20 {
		n, err := br.Read(tmp)
		buf.Write(tmp[:n])
		if err != nil {
			if err.Error() == "EOF" {
				return buf.Bytes(), nil
			}
			return buf.Bytes(), err
		}
	}
	return buf.Bytes(), fmt.Errorf("reader did not end within 8 MiB")
}

// c18afterwards: whatever a writer has been through - a refused chunk, a commit
// answered oddly - every one of its methods still returns when called again.
func c18afterwards(c *core.Choices, w ociregistry.BlobWriter, dig ociregistry.Digest) {
	for i, n := 0, c.Range("afterwards", 1, 4); i < n; i++ {
		switch c.Int("afterwards.what", 6) {
		case 0:
			w.ID()
		case 1:
			w.Size()
			w.ChunkSize()
		case 2:
			w.Write([]byte("x"))
		case 3:
			w.Commit(dig)
		case 4:
			w.Close()
		case 5:
			w.Cancel()
		}
	}
	w.ID()
	w.Close()
}
