package props

import (
	"bytes"
	"context"
	"encoding/base64"
	"encoding/json"
	"errors"
	"fmt"
	"hash/fnv"
	"net/http"
	"net/http/httptest"
	"net/url"
	"slices"
	"sort"
	"strconv"
	"strings"

	"cuelabs.dev/go/oci/ociregistry"
	"cuelabs.dev/go/oci/ociregistry/ocidebug"
	"cuelabs.dev/go/oci/ociregistry/ocifilter"
	"cuelabs.dev/go/oci/ociregistry/ocimem"
	"cuelabs.dev/go/oci/ociregistry/ociunify"

	"verifsim/core"
	"verifsim/reg"
	"verifsim/simnet"
)

// C05: listings are complete, ordered, duplicate-free and paginate losslessly.
func init() {
	core.Components["C05"] = [2][]string{stdReal, stdStub}
	core.Rules["C05"] = "one evaluation = one listing (Repositories, Tags or Referrers) of seeded registry contents through a seeded stack of wrappers and HTTP hops with seeded page size, server options, start point, early-stopping consumer and at most one fault (transport error / bad status / corrupt JSON / truncated body on page j, backend iterator error after item j, failing unify member); distinct = distinct (kind, stack, sizes, page size, start class, stop, fault, outcome) tuple; non-trivial = the listing was issued"
	core.Assumptions["C05"] = []string{"client page sizes >= 1 (non-positive sizes are C18's subject)", "a fault that lands beyond the point where the consumer stopped has not fired and is not counted"}
	register(&core.Scenario{Name: "c05-seq", Property: "C05", Weight: 5, Run: func(env *core.Env) { c05(env, false) }})
	register(&core.Scenario{Name: "c05-unify", Property: "C05", Weight: 2, Bubble: true, Run: func(env *core.Env) { c05(env, true) }})
	register(&core.Scenario{Name: "c05-large", Property: "C05", Weight: 1, Run: c05large})
}

func hashAllow(salt uint64) func(string) bool {
	return func(name string) bool {
		h := fnv.New64a()
		fmt.Fprintf(h, "%d:%s", salt, name)
		return h.Sum64()%4 != 0
	}
}

var c05Names = []string{"a", "a-1", "a.x", "a/b", "a/b/c", "ab", "b", "b/blobs", "c/manifests/d", "d-e", "d.e", "d_e", "e/tags", "f", "f0", "f1/g", "g", "h/i/j/k", "i", "j", "k9", "l", "m", "n", "o", "p", "q", "z"}

func c05(env *core.Env, unify bool) {
	c := env.C
	ctx := context.Background()
	what := []string{"Repositories", "Tags", "Referrers"}[c.Weighted("what", []int{4, 4, 2})]

	// ---- layers (innermost first) ----
	type layer struct {
		kind   string
		prefix string
		allow  func(string) bool
	}
	var layers []layer
	addWrappers := func(p int) {
		for _, k := range []string{"sub", "select", "debug"} {
			if c.Bool("layer."+k, 1, p) {
				l := layer{kind: k}
				switch k {
				case "sub":
					l.prefix = []string{"pre", "pre/fix", "x"}[c.Int("sub.prefix", 3)]
				case "select":
					l.allow = hashAllow(uint64(c.Int("select.salt", 1000)))
				}
				layers = append(layers, l)
			}
		}
	}
	addWrappers(3)
	hops := c.Weighted("hops", []int{2, 5, 3})
	if c.Bool("rec-under-http", 1, 1) {
	}
	for i := 0; i < hops; i++ {
		layers = append(layers, layer{kind: "http"})
		if i == 0 {
			addWrappers(5)
		}
	}
	// name mapping through the sub layers
	toBackend := func(view string) string {
		n := view
		for i := len(layers) - 1; i >= 0; i-- {
			if layers[i].kind == "sub" {
				n = layers[i].prefix + "/" + n
			}
		}
		return n
	}
	viewOf := func(backend []string) []string {
		cur := backend
		for _, l := range layers {
			var next []string
			switch l.kind {
			case "sub":
				for _, n := range cur {
					if rest, ok := strings.CutPrefix(n, l.prefix+"/"); ok {
						next = append(next, rest)
					}
				}
			case "select":
				for _, n := range cur {
					if l.allow(n) {
						next = append(next, n)
					}
				}
			default:
				next = cur
			}
			cur = next
		}
		return cur
	}

	// ---- contents ----
	pageSize := []int{1, 2, 3, 5, 7, 1000}[c.Int("pagesize", 6)]
	nItems := []int{0, 1, pageSize - 1, pageSize, pageSize + 1, 2 * pageSize, 2*pageSize + 1, c.Range("n.any", 0, 20)}[c.Int("nitems", 8)]
	if nItems > 24 {
		nItems = 24
	}
	if nItems < 0 {
		nItems = 0
	}
	mems := []*ocimem.Registry{ocimem.New()}
	if unify {
		mems = append(mems, ocimem.New())
	}
	blob := []byte("x")
	bdesc := ociregistry.Descriptor{Digest: reg.Sha256(blob), Size: 1, MediaType: "application/octet-stream"}
	mkRepo := func(m *ocimem.Registry, name string) {
		if _, err := m.PushBlob(ctx, name, bdesc, bytes.NewReader(blob)); err != nil {
			core.Harnessf("populate %q: %v", name, err)
		}
	}
	// which member(s) get each item
	// for Tags/Referrers through a unifier: the repository may be unknown to one member
	absentFrom := -1
	if unify && what != "Repositories" && c.Bool("repo-absent-from-one-member", 1, 3) {
		absentFrom = c.Int("absent.member", 2)
	}
	member := func() []int {
		if !unify {
			return []int{0}
		}
		if absentFrom >= 0 {
			return []int{1 - absentFrom}
		}
		return [][]int{{0}, {1}, {0, 1}}[c.Int("member", 3)]
	}
	var backendItems []string // repositories (backend names) or tags
	viewRepo := "the/repo"
	backendRepo := toBackend(viewRepo)
	var subject ociregistry.Digest
	var expectDescs map[string]ociregistry.Descriptor
	switch what {
	case "Repositories":
		perm := c.Perm("names", len(c05Names))
		for i := 0; i < nItems && i < len(perm); i++ {
			view := c05Names[perm[i]]
			b := toBackend(view)
			backendItems = append(backendItems, b)
			for _, mi := range member() {
				mkRepo(mems[mi], b)
			}
		}
		// siblings that share a textual prefix with the sub prefix, and unrelated names
		for _, extra := range []string{"pre2/a", "prefix/a", "pre/fixx/a", "xx", "zz/top", "pre-x/a", "pre.d/b", "pre/fix-2/c", "pre/fix.x/d", "x-1", "x.y/z"} {
			if c.Bool("sibling", 1, 3) {
				backendItems = append(backendItems, extra)
				for _, mi := range member() {
					mkRepo(mems[mi], extra)
				}
			}
		}
	case "Tags":
		for mi, m := range mems {
			if mi != absentFrom {
				mkRepo(m, backendRepo)
			}
		}
		for i := 0; i < nItems; i++ {
			tag := fmt.Sprintf("t%02d", c.Int("tagname", 60))
			if slices.Contains(backendItems, tag) {
				continue
			}
			backendItems = append(backendItems, tag)
			for _, mi := range member() {
				data := []byte(fmt.Sprintf(`{"tag":%q}`, tag))
				if _, err := mems[mi].PushManifest(ctx, backendRepo, tag, data, "application/x-verif.opaque"); err != nil {
					core.Harnessf("populate tag: %v", err)
				}
			}
		}
	case "Referrers":
		for mi, m := range mems {
			if mi != absentFrom {
				mkRepo(m, backendRepo)
			}
		}
		subject = reg.Sha256([]byte("subject"))
		expectDescs = map[string]ociregistry.Descriptor{}
		for i := 0; i < nItems; i++ {
			data := []byte(fmt.Sprintf(`{"schemaVersion":2,"mediaType":%q,"config":{"mediaType":"application/x-cfg","digest":%q,"size":1},"layers":[],"subject":{"mediaType":%q,"digest":%q,"size":7},"annotations":{"i":"%d"}}`,
				reg.MTImageManifest, bdesc.Digest, reg.MTImageManifest, subject, i))
			var d ociregistry.Descriptor
			for _, mi := range member() {
				var err error
				d, err = mems[mi].PushManifest(ctx, backendRepo, "", data, reg.MTImageManifest)
				if err != nil {
					core.Harnessf("populate referrer: %v", err)
				}
			}
			backendItems = append(backendItems, string(d.Digest))
			expectDescs[string(d.Digest)] = d
		}
	}

	// ---- faults ----
	faultKind := []string{"none", "none", "transport", "backend-iter", "member"}[c.Int("fault", 5)]
	if faultKind == "member" && !unify {
		faultKind = "backend-iter"
	}
	if faultKind == "transport" && hops == 0 {
		faultKind = "none"
	}
	faultAt := c.Range("fault.at", 0, 4)
	vanish := c.Bool("fault.name-unknown", 1, 3)
	fired := false
	var bplan *reg.FaultPlan
	if faultKind == "backend-iter" || faultKind == "member" {
		bplan = &reg.FaultPlan{IterFailAfter: func(call *reg.Call) (int, error) {
			if call.Method != what {
				return -1, nil
			}
			fired = true
			if vanish {
				// (what a member that is itself a client sees when the repository is
				// deleted upstream between two pages)
				return faultAt, fmt.Errorf("page %d: %w", faultAt, ociregistry.ErrNameUnknown)
			}
			return faultAt, ociregistry.NewError("injected listing failure", "VERIF_INJECTED", nil)
		}}
	}

	// ---- build ----
	var r ociregistry.Interface
	trackers := []*reg.Tracker{reg.NewTracker(), reg.NewTracker()}
	if unify {
		m0 := reg.Wrap(mems[0], trackers[0], nil)
		var m1 ociregistry.Interface = reg.Wrap(mems[1], trackers[1], nil)
		if faultKind == "member" && absentFrom == 1 {
			m0 = reg.Wrap(mems[0], trackers[0], bplan)
		} else if faultKind == "member" {
			m1 = reg.Wrap(mems[1], trackers[1], bplan)
		} else if faultKind == "backend-iter" {
			m0 = reg.Wrap(mems[0], trackers[0], bplan)
			m1 = reg.Wrap(mems[1], trackers[1], bplan)
		}
		pol := ociunify.ReadSequential
		if c.Bool("concurrent", 1, 2) {
			pol = ociunify.ReadConcurrent
		}
		r = ociunify.New(m0, m1, &ociunify.Options{ReadPolicy: pol})
	} else {
		r = reg.Wrap(mems[0], trackers[0], bplan)
	}
	var outer *simnet.Transport
	so := &stackOpts{PageSize: pageSize, OneByte: c.Bool("onebyte", 1, 10), EOFData: c.Bool("eofdata", 1, 4)}
	so.Server.OmitLinkHeaderFromResponses = c.Bool("omitlink", 1, 2)
	if c.Bool("maxpage", 1, 3) {
		so.Server.MaxListPageSize = []int{pageSize, pageSize + 1, 1000}[c.Int("maxpage.n", 3)]
	}
	pageNo := 0
	for _, l := range layers {
		switch l.kind {
		case "sub":
			r = ocifilter.Sub(r, l.prefix)
		case "select":
			r = ocifilter.Select(r, l.allow)
		case "debug":
			r = ocidebug.New(r, func(string, ...any) {})
		case "http":
			var tr *simnet.Transport
			r, tr = httpHop(env, r, so, "hop")
			tr.Record = true
			outer = tr
		}
	}
	// A registry between the client and the library's server that has a page limit
	// of its own: it cuts a longer page down and says where to go on with a Link
	// header, as the distribution specification lets it - either by naming the last
	// item, or with a continuation token that only it understands.
	ownLimit := 0
	var hidden func(string) bool
	if outer != nil && what != "Referrers" && c.Bool("registry-own-limit", 1, 4) {
		ownLimit = c.Range("registry-own-limit.n", 1, 3)
		if layers[len(layers)-1].kind == "http" && c.Bool("registry-own-limit.hides", 1, 3) {
			// ... and it hides some items, after cutting the page: a page can come out empty
			salt := uint64(c.Int("registry-own-limit.salt", 1000))
			hidden = func(name string) bool {
				h := fnv.New64a()
				fmt.Fprintf(h, "hide:%d:%s", salt, name)
				return h.Sum64()%3 == 0
			}
		}
		outer.Handler = ownLimitRegistry(env, outer.Handler, ownLimit, c.Bool("registry-own-limit.token-links", 1, 2), hidden)
	}
	if faultKind == "transport" {
		tfault := []string{"drop-response", "status-500", "bad-json", "truncated-body", "drop-request"}[c.Int("tfault", 5)]
		isList := func(req *http.Request) bool {
			return strings.HasSuffix(req.URL.Path, "/_catalog") || strings.HasSuffix(req.URL.Path, "/tags/list") || strings.Contains(req.URL.Path, "/referrers/")
		}
		outer.Plan = func(req *http.Request) simnet.Fault {
			if !isList(req) {
				return simnet.Fault{}
			}
			pageNo++
			if pageNo-1 != faultAt {
				return simnet.Fault{}
			}
			switch tfault {
			case "drop-response":
				fired = true
				return simnet.Fault{Kind: simnet.DropResponse}
			case "drop-request":
				fired = true
				return simnet.Fault{Kind: simnet.DropRequest}
			case "truncated-body":
				fired = true
				return simnet.Fault{Kind: simnet.TruncateResponse, K: 5}
			}
			return simnet.Fault{}
		}
		page2 := 0
		outer.Mutate = func(req *http.Request, resp *simnet.Response) {
			if !isList(req) {
				return
			}
			page2++
			if page2-1 != faultAt {
				return
			}
			switch tfault {
			case "status-500":
				fired = true
				env.Fault("status-500")
				resp.Status = 500
			case "bad-json":
				fired = true
				env.Fault("corrupt-json")
				resp.Body = append([]byte("]{"), resp.Body...)
				resp.DeclaredLen = int64(len(resp.Body))
				resp.Header.Set("Content-Length", fmt.Sprint(len(resp.Body)))
			}
		}
	}

	// ---- the listing ----
	view := viewOf(backendItems)
	if what != "Repositories" {
		view = backendItems // tags / referrers are not renamed
	}
	sort.Strings(view)
	view = slices.Compact(view)
	start := ""
	startClass := "none"
	if what != "Referrers" {
		switch c.Weighted("start", []int{4, 3, 2, 1, 1, 1}) {
		case 5:
			// a start point is a string to compare with, not a path: forms that a path
			// cleaner would rewrite ("a/" sorts after "a-1" and "a.x", "a" before them)
			if len(view) > 0 {
				e := view[c.Int("start.unclean", len(view))]
				start, startClass = []string{e + "/", e + "/.", e + "//", e + "/x/..", "./" + e, e + "/../" + e}[c.Int("start.unclean.form", 6)], "unclean"
			}
		case 1:
			if len(view) > 0 {
				start, startClass = view[c.Int("start.eq", len(view))], "equal"
			}
		case 2:
			if len(view) > 0 {
				e := view[c.Int("start.between", len(view))]
				start, startClass = e+"-", "between"
				if what == "Repositories" {
					start = e + "0"
				}
			}
		case 3:
			start, startClass = "zzzzzz", "beyond"
		case 4:
			start, startClass = []string{"a b", "x&n=1", "q?last=z", "100%25", "é", "a+b"}[c.Int("start.meta", 6)], "metachars"
		}
	}
	if what != "Repositories" {
		// a select layer may hide the repository itself
		cur := viewRepo
		for i := len(layers) - 1; i >= 0; i-- {
			switch layers[i].kind {
			case "sub":
				cur = layers[i].prefix + "/" + cur
			case "select":
				if !layers[i].allow(cur) {
					view = nil
					env.Probe("c05:repository-hidden-by-select")
				}
			}
		}
	}
	var expected []string
	for _, x := range view {
		if (start == "" || x > start) && (hidden == nil || !hidden(x)) {
			expected = append(expected, x)
		}
	}
	stopAfter := -1
	if c.Bool("stop", 1, 3) {
		stopAfter = c.Range("stop.k", 0, len(expected)+1)
	}
	op := &reg.Op{StopAfter: stopAfter, ContentFault: -1, Start: start}
	switch what {
	case "Repositories":
		op.Kind = reg.Repositories
	case "Tags":
		op.Kind, op.Repo = reg.Tags, viewRepo
	case "Referrers":
		op.Kind, op.Repo, op.Digest = reg.Referrers, viewRepo, subject
	}
	var stackDesc []string
	for _, l := range layers {
		stackDesc = append(stackDesc, strings.TrimSpace(l.kind+" "+l.prefix))
	}
	env.Sample("%s: stack (inner to outer)=%v unify=%v items=%d page=%d maxpage=%d nolink=%v fault=%s@%d expected=%v", op, stackDesc, unify, len(backendItems), pageSize, so.Server.MaxListPageSize, so.Server.OmitLinkHeaderFromResponses, faultKind, faultAt, expected)
	res := reg.Exec(ctx, r, op, nil)
	got := res.Items
	if what == "Referrers" {
		got = nil
		for _, d := range res.Descs {
			got = append(got, string(d.Digest))
			if want, ok := expectDescs[string(d.Digest)]; ok && (d.Size != want.Size || d.MediaType != want.MediaType) {
				env.Failf("C05/Referrers/descriptor", "referrer %s listed as {%d %q}, want {%d %q}", d.Digest, d.Size, d.MediaType, want.Size, want.MediaType)
			}
		}
	}
	outcome := "complete"
	if res.ListErr != nil {
		outcome = "error"
	}
	env.Op(fmt.Sprintf("%s/%v/n%d/p%d/%s/stop%v/%s/%v/%s", what, stackDesc, len(backendItems), pageSize, startClass, stopAfter >= 0, faultKind, fired, outcome))
	env.Logf("%s through %v (page %d, own limit %d) -> %v err=%v (expected %v, fault %s fired=%v)", op, stackDesc, pageSize, ownLimit, got, res.ListErr, expected, faultKind, fired)
	if outer != nil {
		for _, e := range outer.Log {
			env.Logf("   %s %s -> %d Link=%q", e.Method, e.URL, e.Status, e.RespHeader.Get("Link"))
		}
	}
	env.Sample("-> %v err=%v", got, res.ListErr)
	if fired {
		env.Fault("list:" + faultKind)
	}
	class := func(k string) string { return "C05/" + what + "/" + k }
	if unify && vanish && bplan != nil && bplan.IterFaultsDelivered > 0 && bplan.IterItemsBeforeFault == 0 {
		// A member that answers "name unknown" before it has delivered anything is a
		// member that does not know the repository; the unifier rightly goes by the
		// other one. Not a fault, and not what this run set out to look at.
		env.Probe("c05:member-unknown-from-the-start")
		return
	}
	if res.ExtraCalls > 0 {
		env.Failf(class("consumer-called-after-end"), "%s: the iterator called its consumer %d more time(s) after it declined or after an error was delivered", op, res.ExtraCalls)
	}
	// whatever was delivered must be genuine, ascending and duplicate-free
	for i, x := range got {
		if i > 0 && got[i-1] >= x {
			env.Failf(class("order"), "%s: %q delivered after %q (got %v)", op, x, got[i-1], got)
		}
		if !slices.Contains(expected, x) {
			env.Failf(class("foreign-item"), "%s delivered %q which is not among the expected items %v (got %v)", op, x, expected, got)
		}
	}
	if stopAfter >= 0 && len(got) > stopAfter {
		env.Failf(class("consumer-called-after-end"), "%s: the consumer declined after %d items but received %d", op, stopAfter, len(got))
	}
	stopped := stopAfter >= 0 && len(got) >= stopAfter
	if res.ListErr != nil {
		if !fired {
			// legitimate error-only outcomes: a repository the view does not contain
			unknownRepo := what != "Repositories" && errors.Is(res.ListErr, ociregistry.ErrNameUnknown) && len(expected) == 0
			maxPage := so.Server.MaxListPageSize > 0 && pageSize > so.Server.MaxListPageSize && hops > 0
			if !unknownRepo && !maxPage {
				env.Failf(class("unexpected-error"), "%s ended with an error although no fault was injected: %v", op, res.ListErr)
			}
		}
		return
	}
	if !stopped {
		if !slices.Equal(got, expected) && !(len(got) == 0 && len(expected) == 0) {
			if fired {
				env.Failf(class("silently-short-under-fault"), "%s: a %s fault fired, the iteration ended without error, and delivered %v instead of %v", op, faultKind, got, expected)
			}
			env.Failf(class("incomplete"), "%s delivered %v, want %v", op, got, expected)
		}
		if fired && faultKind != "transport" {
			// The complete sequence has arrived although a backend listing was set to fail:
			// "either the complete sequence or an error" is satisfied. (Whether the failure
			// was ever reached cannot be told from outside: a layer that has all it needs
			// may stop reading before it - Sub past its prefix's range, a page that is
			// full, a merge that is handed the error but stopped before it gets to pass it
			// on. An earlier version of this oracle demanded the error whenever the fault
			// was armed, and spoke up against such layers.)
			env.Probe("c05:complete-although-a-backend-listing-was-to-fail")
		}
		if fired && faultKind == "transport" {
			env.Failf(class("error-swallowed"), "%s: page %d suffered a transport fault but the iteration ended without error (delivered %v)", op, faultAt, got)
		}
	} else if fired {
		// The consumer stopped before the failing source's error surfaced; what it got
		// (already checked: genuine, ascending, duplicate-free) may lack items of that
		// source, and the iteration would have ended with the error had it gone on.
		env.Probe("c05:stopped-before-error-surfaced")
	} else if !slices.Equal(got, expected[:min(len(expected), len(got))]) {
		env.Failf(class("wrong-prefix"), "%s with a consumer stopping after %d delivered %v, want a prefix of %v", op, stopAfter, got, expected)
	}
	// termination: no more requests than pages (+2)
	if outer != nil {
		nreq := 0
		for _, e := range outer.Log {
			if e.Method == "GET" {
				nreq++
			}
		}
		// wrappers outside the hop may filter items away, so the number of pages is
		// bounded by what the backends hold, not by what the caller finally sees
		per := pageSize
		if ownLimit > 0 && ownLimit < per {
			per = ownLimit
		}
		budget := (len(backendItems)+per-1)/per + 2
		if nreq > budget {
			env.Failf(class("too-many-requests"), "%s needed %d requests for at most %d items with page size %d (budget %d)", op, nreq, len(backendItems), per, budget)
		}
	}
	// One sequence value iterated again is one more iteration: complete or an
	// error, wherever an earlier iteration of the same value stopped.
	if faultKind == "none" && what != "Referrers" && c.Bool("reiterate", 1, 3) {
		var seq ociregistry.Seq[string]
		if what == "Repositories" {
			seq = r.Repositories(ctx, start)
		} else {
			seq = r.Tags(ctx, viewRepo, start)
		}
		k1 := c.Range("reiterate.stop", 0, len(expected)+1)
		for round, stopAt := range []int{k1, -1, -1} {
			var items []string
			var lerr error
			seq(func(x string, err error) bool {
				if err != nil {
					lerr = err
					return false
				}
				items = append(items, x)
				return stopAt < 0 || len(items) < stopAt
			})
			env.Logf("iteration %d of one %s sequence (stop %d) -> %v err=%v", round+1, what, stopAt, items, lerr)
			if lerr != nil {
				continue // an error is an allowed ending (e.g. hidden repository)
			}
			want := expected
			if stopAt >= 0 && len(want) > stopAt {
				want = want[:max(stopAt, 1)]
			}
			if !slices.Equal(items, want) && !(len(items) == 0 && len(want) == 0) {
				env.Failf(class("reiteration-differs"), "%s: iteration %d of the same sequence value (earlier iteration stopped after %d) delivered %v without error, want %v", op, round+1, k1, items, want)
			}
		}
	}
}

// c05large: listings whose size and page size are in the thousands, so that
// thresholds inside the server or client (default page limits, buffer sizes) are
// crossed. The backend is a synthetic lister; the hop is the real client and server.
func c05large(env *core.Env) {
	c := env.C
	ctx := context.Background()
	pageSize := []int{100, 1000, 1024, 4096, 9999, 10000, 10001, 16384, 20000, 65536}[c.Int("pagesize", 10)]
	nItems := []int{pageSize - 1, pageSize, pageSize + 1, pageSize + 7, 2*pageSize + 1, 10000, 10001, 10007, 8192}[c.Int("nitems", 9)]
	if nItems > 21000 {
		nItems = 21000 - c.Int("nitems.trim", 3)
	}
	what := []string{"Repositories", "Tags"}[c.Int("what", 2)]
	all := make([]string, nItems)
	for i := range all {
		all[i] = fmt.Sprintf("n%06d", i)
	}
	lister := func(start string) ociregistry.Seq[string] {
		return func(yield func(string, error) bool) {
			i := 0
			if start != "" {
				i = sort.SearchStrings(all, start)
				if i < len(all) && all[i] == start {
					i++
				}
			}
			for ; i < len(all); i++ {
				if !yield(all[i], nil) {
					return
				}
			}
		}
	}
	backend := &ociregistry.Funcs{
		Repositories_: func(ctx context.Context, start string) ociregistry.Seq[string] { return lister(start) },
		Tags_:         func(ctx context.Context, repo, start string) ociregistry.Seq[string] { return lister(start) },
	}
	so := &stackOpts{PageSize: pageSize}
	so.Server.OmitLinkHeaderFromResponses = c.Bool("omitlink", 1, 2)
	if c.Bool("maxpage", 1, 4) {
		so.Server.MaxListPageSize = []int{pageSize, pageSize + 1, 100000}[c.Int("maxpage.n", 3)]
	}
	hops := c.Range("hops", 1, 2)
	var r ociregistry.Interface = backend
	var outer *simnet.Transport
	for i := 0; i < hops; i++ {
		r, outer = httpHop(env, r, so, fmt.Sprintf("hop%d", i))
	}
	outer.Record = true
	start := ""
	if c.Bool("start", 1, 3) {
		start = all[c.Int("start.i", len(all))]
	}
	var expected []string
	for _, x := range all {
		if start == "" || x > start {
			expected = append(expected, x)
		}
	}
	stopAfter := -1
	if c.Bool("stop", 1, 4) {
		stopAfter = []int{1, pageSize - 1, pageSize, pageSize + 1, len(expected)}[c.Int("stop.k", 5)]
	}
	op := &reg.Op{StopAfter: stopAfter, ContentFault: -1, Start: start, Kind: reg.Repositories}
	if what == "Tags" {
		op.Kind, op.Repo = reg.Tags, "the/repo"
	}
	env.Sample("%s: %d items, page %d, maxpage %d, nolink %v, hops %d", op, nItems, pageSize, so.Server.MaxListPageSize, so.Server.OmitLinkHeaderFromResponses, hops)
	res := reg.Exec(ctx, r, op, nil)
	got := res.Items
	outcome := "complete"
	if res.ListErr != nil {
		outcome = "error"
	}
	env.Op(fmt.Sprintf("large/%s/n%d/p%d/hops%d/stop%d/%s", what, nItems, pageSize, hops, stopAfter, outcome))
	env.Logf("%s -> %d items err=%v (expected %d)", op, len(got), res.ListErr, len(expected))
	class := func(k string) string { return "C05/" + what + "/large/" + k }
	if res.ExtraCalls > 0 {
		env.Failf(class("consumer-called-after-end"), "%s: the iterator called its consumer %d more time(s) after it declined", op, res.ExtraCalls)
	}
	if res.ListErr != nil {
		env.Failf(class("unexpected-error"), "%s (%d items, page size %d) ended with an error although no fault was injected: %v", op, nItems, pageSize, res.ListErr)
	}
	want := expected
	if stopAfter >= 0 && len(want) > stopAfter {
		want = want[:stopAfter]
	}
	if !slices.Equal(got, want) {
		i := 0
		for i < len(got) && i < len(want) && got[i] == want[i] {
			i++
		}
		env.Failf(class("incomplete"), "%s (%d items, page size %d, %d hop(s)) delivered %d items without error, want %d (first difference at index %d)", op, nItems, pageSize, hops, len(got), len(want), i)
	}
	nreq := 0
	for _, e := range outer.Log {
		if e.Method == "GET" {
			nreq++
		}
	}
	if budget := (nItems+pageSize-1)/pageSize + 2; nreq > budget {
		env.Failf(class("too-many-requests"), "%s needed %d requests for %d items with page size %d (budget %d)", op, nreq, nItems, pageSize, budget)
	}
}

// ownLimitRegistry is a registry in front of inner that never returns more than
// limit items per list page.
func ownLimitRegistry(env *core.Env, inner http.Handler, limit int, tokenLinks bool, hidden func(string) bool) http.Handler {
	return http.HandlerFunc(func(w http.ResponseWriter, req *http.Request) {
		if !strings.HasSuffix(req.URL.Path, "/_catalog") && !strings.HasSuffix(req.URL.Path, "/tags/list") {
			inner.ServeHTTP(w, req)
			return
		}
		orig := req.URL.Query()
		q := req.URL.Query()
		if tok := q.Get("next_page"); tok != "" {
			last, err := base64.RawURLEncoding.DecodeString(tok)
			if err != nil {
				http.Error(w, "bad continuation token", http.StatusBadRequest)
				return
			}
			q.Del("next_page")
			q.Set("last", string(last))
		}
		r2 := req.Clone(req.Context())
		u := *req.URL
		u.RawQuery = q.Encode()
		r2.URL = &u
		r2.RequestURI = u.RequestURI()
		rec := httptest.NewRecorder()
		inner.ServeHTTP(rec, r2)
		body := rec.Body.Bytes()
		hdr := rec.Header().Clone()
		if rec.Code == 200 {
			var doc map[string]json.RawMessage
			if json.Unmarshal(body, &doc) == nil {
				key := "tags"
				if _, ok := doc["repositories"]; ok {
					key = "repositories"
				}
				var items []string
				if json.Unmarshal(doc[key], &items) == nil {
					cut := len(items) > limit
					// (a registry that hides items cannot leave it to the client's "a full
					// page means there may be more" rule, which the hiding breaks: it
					// says so itself whenever the page it got was full)
					nReq, _ := strconv.Atoi(orig.Get("n"))
					full := hidden != nil && nReq > 0 && len(items) >= nReq
					if cut {
						env.Fault("registry-cuts-page-to-own-limit")
						items = items[:limit]
					}
					lastItem := ""
					if len(items) > 0 {
						lastItem = items[len(items)-1]
					}
					if hidden != nil {
						kept := []string{}
						for _, it := range items {
							if !hidden(it) {
								kept = append(kept, it)
							}
						}
						if len(kept) == 0 && cut {
							env.Probe("c05:empty-page-with-link")
						}
						items = kept
					}
					doc[key], _ = json.Marshal(items)
					body, _ = json.Marshal(doc)
					if cut || full {
						next := url.Values{}
						if n := orig.Get("n"); n != "" {
							next.Set("n", n)
						}
						if tokenLinks {
							next.Set("next_page", base64.RawURLEncoding.EncodeToString([]byte(lastItem)))
						} else {
							next.Set("last", lastItem)
						}
						hdr.Set("Link", fmt.Sprintf("<%s?%s>; rel=\"next\"", req.URL.Path, next.Encode()))
					} else if hidden != nil && hdr.Get("Link") != "" && tokenLinks && lastItem != "" {
						// (the inner server's own Link names its last item; keep it in this registry's style)
						next := url.Values{}
						if n := orig.Get("n"); n != "" {
							next.Set("n", n)
						}
						next.Set("next_page", base64.RawURLEncoding.EncodeToString([]byte(lastItem)))
						hdr.Set("Link", fmt.Sprintf("<%s?%s>; rel=\"next\"", req.URL.Path, next.Encode()))
					}
				}
			}
		}
		hdr.Set("Content-Length", fmt.Sprint(len(body)))
		for k, v := range hdr {
			w.Header()[k] = v
		}
		w.WriteHeader(rec.Code)
		w.Write(body)
	})
}
