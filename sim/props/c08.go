package props

import (
	"bytes"
	"context"
	"fmt"
	"sort"
	"strings"
	"time"

	"cuelabs.dev/go/oci/ociregistry"
	"cuelabs.dev/go/oci/ociregistry/ocimem"
	"cuelabs.dev/go/oci/ociregistry/ociserver"
	"github.com/anishathalye/porcupine"

	"verifsim/core"
	"verifsim/reg"
	"verifsim/simnet"
)

// C08: the in-memory registry is race-free and linearizable under concurrent use.
//
// 2..16 simulated tasks run pre-generated programs over a tiny shared key space
// against one ocimem (directly, or each through its own ociclient over the
// simulated network into one shared ociserver). The simulator decides the
// interleaving at every mutex acquisition and every network boundary.
//
//	engine A (synctest bubble): the recorded history is checked for
//	  linearizability against refreg with porcupine, plus directed invariants;
//	engine B (race detector under the same kind of serial schedule): no data race.
func init() {
	core.Components["C08"] = [2][]string{
		{"ocimem (shared by all tasks)", "ociserver + ociclient (HTTP family)", "sync.Mutex acquisitions of the library (rewritten to simulator yield points)"},
		{"goroutine scheduling: the simulator releases one task at a time (engine A: testing/synctest bubble; engine B: raw-pipe hand-off under -race)", "net/http transport/server: simnet"}}
	core.Rules["C08"] = "one evaluation = one concurrent run: 2-16 tasks, each with a pre-generated program of 1-8 operations over <=2 repositories, <=3 blobs, <=3 manifests, <=2 tags and one shared upload session, under one seeded schedule; distinct = distinct schedule signature (sequence of scheduler picks) x program shape; non-trivial = at least two tasks issued operations"
	core.Assumptions["C08"] = []string{
		"pre-emption happens at synchronisation operations only (mutex acquisitions, goroutine starts, network boundaries): sufficient for data-race-free code, and engine B checks race freedom on schedules of the same kind",
		"over HTTP only operations whose effect is one exchange enter the history (reads, deletes, mount, PushManifest, PushBlob, single-page listings)",
		"porcupine verdicts of 'unknown' (time-out) are counted as inconclusive and never reported",
		"the race detector keeps a bounded access history per memory word; runs are short to make eviction unlikely",
	}
	register(&core.Scenario{Name: "c08-lin-mem", Property: "C08", Weight: 5, Bubble: true, Run: func(env *core.Env) { c08(env, "mem", false) }})
	register(&core.Scenario{Name: "c08-lin-http", Property: "C08", Weight: 3, Bubble: true, Run: func(env *core.Env) { c08(env, "http", false) }})
	register(&core.Scenario{Name: "c08-lin-mem-immutable", Property: "C08", Weight: 2, Bubble: true, Run: func(env *core.Env) { c08(env, "mem", true) }})
	register(&core.Scenario{Name: "c08-retag", Property: "C08", Weight: 2, Bubble: true, Run: c08retag})
	register(&core.Scenario{Name: "c08-commit-vs-write", Property: "C08", Weight: 2, Bubble: true, Run: c08commitWrite})
	register(&core.Scenario{Name: "c08-session-commits", Property: "C08", Weight: 2, Bubble: true, Run: c08sessionCommits})
}

type histEntry struct {
	task      int
	op        *reg.Op
	res       *reg.Res
	call, ret int64
}

// c08pools: the tiny shared key space.
type c08pools struct {
	repos []string
	blobs [][]byte
	mans  []struct {
		data []byte
		mt   string
	}
	tags []string
	// extra: repositories that do not exist at the start; a push creates them mid-run
	extra []string
}

func mkPools(c *core.Choices) *c08pools {
	p := &c08pools{repos: pickSome(c, "repos", []string{"foo", "a/b", "tags/list"}, 1, 2), tags: []string{"t1", "t2"}[:c.Range("ntags", 1, 2)]}
	p.extra = pickSome(c, "extrarepos", []string{"0first", "b", "g/mid", "zz/last"}, 0, 3)
	nb := c.Range("nblobs", 1, 3)
	for i := 0; i < nb; i++ {
		p.blobs = append(p.blobs, []byte(fmt.Sprintf("blob-%d-%d", i, c.Int("blobuniq", 1000))))
	}
	nm := c.Range("nmans", 1, 3)
	for i := 0; i < nm; i++ {
		switch c.Int("mankind", 3) {
		case 0:
			p.mans = append(p.mans, struct {
				data []byte
				mt   string
			}{[]byte(fmt.Sprintf(`{"opaque":%d,"u":%d}`, i, c.Int("manuniq", 1000))), "application/x-verif.opaque"})
		case 1: // image manifest over blob 0
			b := p.blobs[0]
			p.mans = append(p.mans, struct {
				data []byte
				mt   string
			}{[]byte(fmt.Sprintf(`{"schemaVersion":2,"mediaType":%q,"config":{"mediaType":"application/x-cfg","digest":%q,"size":%d},"layers":[],"annotations":{"i":"%d"}}`, reg.MTImageManifest, reg.Sha256(b), len(b), i)), reg.MTImageManifest})
		case 2: // index over manifest 0 (if any) else opaque
			if len(p.mans) > 0 {
				m0 := p.mans[0]
				p.mans = append(p.mans, struct {
					data []byte
					mt   string
				}{[]byte(fmt.Sprintf(`{"schemaVersion":2,"mediaType":%q,"manifests":[{"mediaType":%q,"digest":%q,"size":%d}],"annotations":{"i":"%d"}}`, reg.MTImageIndex, m0.mt, reg.Sha256(m0.data), len(m0.data), i)), reg.MTImageIndex})
			} else {
				p.mans = append(p.mans, struct {
					data []byte
					mt   string
				}{[]byte(fmt.Sprintf(`{"opaque2":%d}`, i)), "application/x-verif.opaque"})
			}
		}
	}
	return p
}

func (p *c08pools) genOp(c *core.Choices, http bool, uploads bool) *reg.Op {
	op := &reg.Op{StopAfter: -1, ContentFault: -1}
	op.Repo = p.repos[c.Int("repo", len(p.repos))]
	blob := p.blobs[c.Int("blob", len(p.blobs))]
	man := p.mans[c.Int("man", len(p.mans))]
	tag := p.tags[c.Int("tag", len(p.tags))]
	w := []int{10, 6, 4, 4, 10, 6, 8, 6, 5, 5, 5, 4, 3, 3, 2, 0, 0, 0, 0, 0}
	if uploads {
		w[15], w[16], w[17], w[19] = 6, 3, 2, 1
	}
	if len(p.extra) > 0 {
		w[18] = 4
	}
	switch c.Weighted("kind", w) {
	case 0:
		op.Kind, op.Data, op.Digest, op.DeclSize, op.MediaType = reg.PushBlob, blob, reg.Sha256(blob), int64(len(blob)), "application/octet-stream"
	case 1:
		op.Kind, op.Digest = reg.GetBlob, reg.Sha256(blob)
	case 2:
		op.Kind, op.Digest = reg.ResolveBlob, reg.Sha256(blob)
	case 3:
		op.Kind, op.Digest = reg.DeleteBlob, reg.Sha256(blob)
	case 4:
		op.Kind, op.Data, op.MediaType = reg.PushManifest, man.data, man.mt
		if c.Bool("tagged", 2, 3) {
			op.Tag = tag
		}
	case 5:
		op.Kind, op.Digest = reg.GetManifest, reg.Sha256(man.data)
	case 6:
		op.Kind, op.Tag = reg.GetTag, tag
	case 7:
		op.Kind, op.Tag = reg.ResolveTag, tag
	case 8:
		op.Kind, op.Digest = reg.DeleteManifest, reg.Sha256(man.data)
	case 9:
		op.Kind, op.Tag = reg.DeleteTag, tag
	case 10:
		op.Kind, op.Digest = reg.MountBlob, reg.Sha256(blob)
		op.Repo2 = p.repos[c.Int("repo2", len(p.repos))]
	case 11:
		op.Kind, op.Slow = reg.Tags, c.Bool("slow-consumer", 1, 2)
	case 12:
		op.Kind, op.Slow = reg.Repositories, c.Bool("slow-consumer", 1, 2)
	case 13:
		op.Kind, op.Digest = reg.ResolveManifest, reg.Sha256(man.data)
	case 14:
		op.Kind, op.Digest, op.O0, op.O1 = reg.GetBlobRange, reg.Sha256(blob), 1, int64(c.Range("o1", 2, 5))
	case 15: // append to the shared upload session
		op.Kind, op.Handle = reg.UpWrite, 0
		// every chunk is the same two bytes, so that the content of the session is
		// determined by how many writes took effect, whatever their order
		op.Data = []byte("ab")
	case 16:
		op.Kind, op.Handle = reg.UpSize, 0
	case 17:
		op.Kind, op.Handle = reg.UpCommit, 0
		// the digest of the content after k writes, for a seeded k: the commit is right
		// only if it takes effect at such a moment
		op.Digest = reg.Sha256(bytes.Repeat([]byte("ab"), c.Int("commit.k", 4)))
	case 18: // a push that brings a new repository into existence
		op.Repo = p.extra[c.Int("extrarepo", len(p.extra))]
		op.Kind, op.Data, op.Digest, op.DeclSize, op.MediaType = reg.PushBlob, blob, reg.Sha256(blob), int64(len(blob)), "application/octet-stream"
	case 19: // cancel the shared upload session
		op.Kind, op.Handle = reg.UpCancel, 0
	}
	return op
}

func c08(env *core.Env, kind string, immutable bool) {
	c := env.C
	ctx := context.Background()
	ntasks := c.Range("ntasks", 2, 4)
	maxOps := 6
	if env.Tier == "thorough" && c.Bool("many-tasks", 1, 3) {
		ntasks = c.Range("ntasks.many", 5, 16)
		maxOps = 3
	}
	pools := mkPools(c)
	mem := ocimem.NewWithConfig(&ocimem.Config{ImmutableTags: immutable})
	m0 := reg.NewModel(immutable)
	m0.StrictCodes = false
	m0.Concurrent = true
	for _, r := range pools.repos {
		// A multi-exchange push names its repository (opens an upload) before it takes
		// effect; a repository without content "may be reported either as unknown or
		// as empty", so every name in play may appear in listings at any time.
		m0.Named[r] = true
	}
	for _, r := range pools.extra {
		m0.Named[r] = true
	}
	http := kind == "http"
	// some initial content so that reads and deletes have something to find
	seed := reg.NewHandles()
	nseed := c.Range("nseed", 0, 4)
	for i := 0; i < nseed; i++ {
		op := pools.genOp(c, http, false)
		if op.Kind != reg.PushBlob && op.Kind != reg.PushManifest {
			continue
		}
		res := reg.Exec(ctx, mem, op, seed)
		m0.Step(op, res)
	}
	uploads := !http && c.Bool("uploads", 1, 2)
	var uploadID string
	if uploads && c.Bool("upload.fresh-id", 1, 2) {
		// the session does not exist yet: the first tasks to resume it create it (ocimem
		// accepts a caller-chosen id), possibly at the same time
		uploadID = "verif-session-1"
		m0.Uploads[0] = &reg.MUpload{Repo: pools.repos[0], Check: -1}
		m0.Named[pools.repos[0]] = true
		env.Probe("c08:upload-session-created-by-tasks")
	} else if uploads {
		w, err := mem.PushBlobChunked(ctx, pools.repos[0], 0)
		if err != nil {
			core.Harnessf("start upload: %v", err)
		}
		uploadID = w.ID()
		m0.Uploads[0] = &reg.MUpload{Repo: pools.repos[0], Check: -1}
		m0.Named[pools.repos[0]] = true
	}
	// programs
	progs := make([][]*reg.Op, ntasks)
	total := 0
	for t := range progs {
		n := c.Range("proglen", 1, maxOps)
		for i := 0; i < n && total < 22; i++ {
			progs[t] = append(progs[t], pools.genOp(c, http, uploads))
			total++
		}
	}
	var handler = ociserver.New(mem, nil)
	hists := make([][]histEntry, ntasks)
	sched := env.Sched
	var finishing core.Flag // a Commit or Cancel of the shared session has been invoked
	for t := 0; t < ntasks; t++ {
		t := t
		sched.Spawn(fmt.Sprintf("client%d", t), func() {
			var r ociregistry.Interface = mem
			if http {
				tr := &simnet.Transport{Env: env, Handler: handler}
				cl, err := newClient(tr, 1000)
				if err != nil {
					core.Harnessf("%v", err)
				}
				r = cl
			}
			h := reg.NewHandles()
			if uploads {
				h.ID[0] = uploadID
			}
			detached := false
			for _, op := range progs[t] {
				if op.Kind >= reg.UpWrite && op.Handle == 0 && h.W[0] == nil {
					// A task attaches to the session when it first needs it, so that several
					// may be attaching (and, with a fresh id, creating it) at once. What a
					// resume finds once a Commit or Cancel has been invoked - the finished
					// session or a fresh one under the same id - is nobody's promise: a task
					// that was not attached by then leaves the session alone.
					if detached {
						continue
					}
					w, err := r.PushBlobChunkedResume(ctx, pools.repos[0], uploadID, -1, 0)
					if err != nil {
						core.Harnessf("resume: %v", err)
					}
					if finishing.Get() {
						detached = true
						continue
					}
					h.W[0] = w
				}
				if op.Handle == 0 && (op.Kind == reg.UpCommit || op.Kind == reg.UpCancel) {
					finishing.Set()
				}
				if op.Slow {
					op.Between = sched.Yield // other tasks run while the listing is being consumed
				}
				sched.Yield()
				e := histEntry{task: t, op: op, call: sched.Seq()}
				e.res = reg.Exec(ctx, r, op, h)
				e.ret = sched.Seq()
				hists[t] = append(hists[t], e)
			}
		})
	}
	env.Finally(func() {
		var all []histEntry
		for _, h := range hists {
			all = append(all, h...)
		}
		sort.Slice(all, func(i, j int) bool { return all[i].call < all[j].call })
		// The final state is part of the history: once every task has returned, one more
		// client reads everything in the key space (and everything a commit reported).
		last := int64(0)
		for _, e := range all {
			last = max(last, e.ret, e.call)
		}
		final := func(op *reg.Op) {
			op.StopAfter, op.ContentFault = -1, -1
			e := histEntry{task: ntasks, op: op, call: last + 1, ret: last + 2}
			last += 2
			e.res = reg.Exec(ctx, mem, op, nil)
			all = append(all, e)
		}
		final(&reg.Op{Kind: reg.Repositories})
		committed := map[ociregistry.Digest]bool{}
		for _, e := range all {
			if e.op.Kind == reg.UpCommit && e.res.Err == nil {
				committed[e.res.Desc.Digest] = true
			}
		}
		for _, rp := range append(append([]string{}, pools.repos...), pools.extra...) {
			final(&reg.Op{Kind: reg.Tags, Repo: rp})
			for _, b := range pools.blobs {
				final(&reg.Op{Kind: reg.GetBlob, Repo: rp, Digest: reg.Sha256(b)})
			}
			for _, mn := range pools.mans {
				final(&reg.Op{Kind: reg.GetManifest, Repo: rp, Digest: reg.Sha256(mn.data)})
			}
			for _, tg := range pools.tags {
				final(&reg.Op{Kind: reg.GetTag, Repo: rp, Tag: tg})
			}
			if rp == pools.repos[0] {
				for _, d := range sortedDigestKeys(committed) {
					final(&reg.Op{Kind: reg.GetBlob, Repo: rp, Digest: d})
				}
			}
		}
		active := 0
		for _, h := range hists {
			if len(h) > 0 {
				active++
			}
		}
		for _, e := range all {
			env.Op(e.op.Kind.String())
			env.Logf("task %d [%d,%d] %s -> %s", e.task, e.call, e.ret, e.op, e.res)
			env.Sample("task %d [%d,%d] %s -> %s", e.task, e.call, e.ret, e.op, e.res)
		}
		if active < 2 {
			return
		}
		// invariant: whatever a read returned with a clean EOF hashes to the digest asked for
		for _, e := range all {
			if (e.op.Kind == reg.GetBlob || e.op.Kind == reg.GetManifest) && e.res.Err == nil && e.res.ReadErr == nil {
				if reg.Sha256(e.res.Data) != e.op.Digest {
					env.Failf(env.Property+"/stored-content-digest-mismatch/"+e.op.Kind.String(), "task %d: %s returned %d bytes that do not hash to the digest asked for", e.task, e.op, len(e.res.Data))
				}
			}
		}
		if core.EngineB {
			return // engine B's oracle is the race detector
		}
		if env.Property != "C08" {
			return // (C01 runs this family for its digest invariant only)
		}
		checkLinearizable(env, m0, all, "C08")
	})
}

type linState struct {
	m     *reg.Model
	canon string
}

// checkLinearizable checks the recorded history against refreg with porcupine.
func checkLinearizable(env *core.Env, m0 *reg.Model, all []histEntry, prop string) {
	model := porcupine.Model{
		Init: func() interface{} { return &linState{m: m0, canon: m0.Canon()} },
		Step: func(state, input, output interface{}) (bool, interface{}) {
			st := state.(*linState)
			op := input.(*reg.Op)
			res := output.(*reg.Res)
			nm := st.m.Clone()
			ok, _ := nm.Step(op, res)
			if !ok {
				return false, state
			}
			return true, &linState{m: nm, canon: nm.Canon()}
		},
		Equal: func(a, b interface{}) bool { return a.(*linState).canon == b.(*linState).canon },
		DescribeOperation: func(input, output interface{}) string {
			return input.(*reg.Op).String() + " -> " + output.(*reg.Res).String()
		},
	}
	ops := make([]porcupine.Operation, 0, len(all))
	for _, e := range all {
		ops = append(ops, porcupine.Operation{ClientId: e.task, Input: e.op, Call: e.call, Output: e.res, Return: e.ret})
	}
	res := porcupine.CheckOperationsTimeout(model, ops, 10*time.Second)
	switch res {
	case porcupine.Ok:
		env.Stats.Lin["ok"]++
	case porcupine.Unknown:
		env.Stats.Lin["unknown(inconclusive)"]++
	case porcupine.Illegal:
		env.Stats.Lin["illegal"]++
		var sb strings.Builder
		kinds := map[string]bool{}
		for _, e := range all {
			fmt.Fprintf(&sb, "  task %d [%d,%d] %s -> %s\n", e.task, e.call, e.ret, e.op, e.res)
		}
		// class: the kinds of operations that failed or returned data (coarse but stable)
		culprit := culpritKind(m0, all)
		kinds[culprit] = true
		env.Failf(prop+"/not-linearizable/"+culprit, "the concurrent history has no linearization with respect to the reference registry:\n%s", sb.String())
	}
}

// culpritKind finds a stable tag for a non-linearizable history: the kind of the
// first operation (in call order) whose removal makes the rest linearizable.
func culpritKind(m0 *reg.Model, all []histEntry) string {
	for skip := range all {
		if linearizableWithout(m0, all, skip) {
			return all[skip].op.Kind.String()
		}
	}
	return "history"
}

func linearizableWithout(m0 *reg.Model, all []histEntry, skip int) bool {
	model := porcupine.Model{
		Init: func() interface{} { return &linState{m: m0, canon: m0.Canon()} },
		Step: func(state, input, output interface{}) (bool, interface{}) {
			st := state.(*linState)
			nm := st.m.Clone()
			ok, _ := nm.Step(input.(*reg.Op), output.(*reg.Res))
			if !ok {
				return false, state
			}
			return true, &linState{m: nm, canon: nm.Canon()}
		},
		Equal: func(a, b interface{}) bool { return a.(*linState).canon == b.(*linState).canon },
	}
	var ops []porcupine.Operation
	for i, e := range all {
		if i == skip {
			continue
		}
		// a write that is skipped would leave later reads unexplained; only reads are candidates
		ops = append(ops, porcupine.Operation{ClientId: e.task, Input: e.op, Call: e.call, Output: e.res, Return: e.ret})
	}
	switch all[skip].op.Kind {
	case reg.PushBlob, reg.PushManifest, reg.DeleteBlob, reg.DeleteManifest, reg.DeleteTag, reg.MountBlob, reg.UpWrite, reg.UpCommit:
		if all[skip].res.Err == nil {
			return false
		}
	}
	return porcupine.CheckOperationsTimeout(model, ops, 2*time.Second) == porcupine.Ok
}

// c08retag: a tag that always points at an existing manifest is never reported missing.
func c08retag(env *core.Env) {
	c := env.C
	ctx := context.Background()
	mem := ocimem.New()
	repo, tag := "foo", "latest"
	nver := c.Range("versions", 2, 5)
	mk := func(i int) []byte { return []byte(fmt.Sprintf(`{"version":%d}`, i)) }
	if _, err := mem.PushManifest(ctx, repo, tag, mk(0), "application/x-verif.opaque"); err != nil {
		core.Harnessf("%v", err)
	}
	nreaders := c.Range("readers", 1, 3)
	useHTTP := c.Bool("http", 1, 3)
	handler := ociserver.New(mem, nil)
	type obs struct {
		err  error
		data []byte
		head bool
	}
	results := make([][]obs, nreaders)
	sched := env.Sched
	mkReg := func() ociregistry.Interface {
		if !useHTTP {
			return mem
		}
		cl, _ := newClient(&simnet.Transport{Env: env, Handler: handler}, 1000)
		return cl
	}
	sched.Spawn("writer", func() {
		r := mkReg()
		for i := 1; i <= nver; i++ {
			if _, err := r.PushManifest(ctx, repo, tag, mk(i), "application/x-verif.opaque"); err != nil {
				core.Harnessf("re-tag failed: %v", err)
			}
			if err := r.DeleteManifest(ctx, repo, reg.Sha256(mk(i-1))); err != nil {
				core.Harnessf("delete of the previous version failed: %v", err)
			}
		}
	})
	nreads := c.Range("reads", 1, 4)
	heads := make([][]bool, nreaders)
	for k := range heads {
		for i := 0; i < nreads; i++ {
			heads[k] = append(heads[k], c.Bool("read.resolve-only", 1, 3))
		}
	}
	for k := 0; k < nreaders; k++ {
		k := k
		sched.Spawn(fmt.Sprintf("reader%d", k), func() {
			r := mkReg()
			for i := 0; i < nreads; i++ {
				sched.Yield()
				if heads[k][i] {
					// (over HTTP: a HEAD request, answered from the tag alone or in
					// however many steps the server takes)
					desc, err := r.ResolveTag(ctx, repo, tag)
					o := obs{err: err, head: true}
					for v := 0; err == nil && v <= nver; v++ {
						if desc.Digest == reg.Sha256(mk(v)) {
							o.data = mk(v)
						}
					}
					results[k] = append(results[k], o)
					continue
				}
				br, err := r.GetTag(ctx, repo, tag)
				o := obs{err: err}
				if err == nil {
					o.data, o.err = readAll(br)
				}
				results[k] = append(results[k], o)
			}
		})
	}
	env.Finally(func() {
		env.Sample("versions=%d readers=%d reads=%d http=%v", nver, nreaders, nreads, useHTTP)
		for k, rs := range results {
			for i, o := range rs {
				env.Op(fmt.Sprintf("gettag:%v", o.err == nil))
				env.Logf("reader %d read %d -> %d bytes err=%v", k, i, len(o.data), o.err)
				if o.err != nil && o.head {
					env.Failf("C08/tag-reported-missing", "reader %d: ResolveTag(%q) failed with %q although the tag pointed at an existing manifest at every instant (the writer re-tags before it deletes the previous version)", k, tag, o.err)
				}
				if o.err != nil {
					env.Failf("C08/tag-reported-missing", "reader %d: GetTag(%q) failed with %q although the tag pointed at an existing manifest at every instant (the writer re-tags before it deletes the previous manifest)", k, tag, o.err)
				}
				okv := false
				for v := 0; v <= nver; v++ {
					if string(o.data) == string(mk(v)) {
						okv = true
					}
				}
				if !okv {
					env.Failf("C08/tag-served-foreign-bytes", "reader %d: GetTag returned %q which no writer ever pushed", k, o.data)
				}
			}
		}
	})
}

// c08commitWrite: commit racing with writes on one upload session never stores
// content that does not match its digest.
func c08commitWrite(env *core.Env) {
	c := env.C
	ctx := context.Background()
	mem := ocimem.New()
	repo := "foo"
	w0, err := mem.PushBlobChunked(ctx, repo, 0)
	if err != nil {
		core.Harnessf("%v", err)
	}
	id := w0.ID()
	base := []byte("base-content|")
	if _, err := w0.Write(base); err != nil {
		core.Harnessf("%v", err)
	}
	nwriters := c.Range("writers", 1, 3)
	var commitDesc ociregistry.Descriptor
	var commitErr error
	sched := env.Sched
	sched.Spawn("committer", func() {
		w, err := mem.PushBlobChunkedResume(ctx, repo, id, -1, 0)
		if err != nil {
			core.Harnessf("%v", err)
		}
		sched.Yield()
		commitDesc, commitErr = w.Commit(reg.Sha256(base))
	})
	nwrites := make([]int, nwriters)
	for k := range nwrites {
		nwrites[k] = c.Range("nwrites", 1, 2)
	}
	for k := 0; k < nwriters; k++ {
		k := k
		sched.Spawn(fmt.Sprintf("writer%d", k), func() {
			w, err := mem.PushBlobChunkedResume(ctx, repo, id, -1, 0)
			if err != nil {
				core.Harnessf("%v", err)
			}
			for i := 0; i < nwrites[k]; i++ {
				sched.Yield()
				w.Write([]byte(fmt.Sprintf("<w%d.%d>", k, i)))
				w.Size()
			}
		})
	}
	env.Finally(func() {
		env.Op(fmt.Sprintf("commit:%v/writers=%d", commitErr == nil, nwriters))
		env.Sample("commit racing with %d writers -> %v %v", nwriters, commitDesc, commitErr)
		env.Logf("commit -> %v %v", commitDesc, commitErr)
		// whatever is stored under the digest must hash to it
		br, err := mem.GetBlob(ctx, repo, reg.Sha256(base))
		if err != nil {
			if commitErr == nil {
				env.Failf(env.Property+"/commit-lost", "Commit succeeded but the blob is not there: %v", err)
			}
			return
		}
		data, _ := readAll(br)
		if reg.Sha256(data) != reg.Sha256(base) {
			env.Failf(env.Property+"/stored-content-digest-mismatch/commit", "after a commit that raced with writes, the blob stored under %s has %d bytes (%q) that do not hash to it", reg.Sha256(base), len(data), data)
		}
		if commitErr == nil && commitDesc.Size != int64(len(base)) && commitDesc.Size != int64(len(data)) {
			env.Failf(env.Property+"/commit-descriptor-size", "Commit returned size %d for a blob of %d bytes", commitDesc.Size, len(data))
		}
	})
}

func sortedDigestKeys(m map[ociregistry.Digest]bool) []ociregistry.Digest {
	var out []ociregistry.Digest
	for d := range m {
		out = append(out, d)
	}
	sort.Slice(out, func(i, j int) bool { return out[i] < out[j] })
	return out
}

// c08sessionCommits: several handles on one upload session, each task a short
// program of Write / Commit / Cancel / Size with commits naming the digest of the
// content after k writes. The history (plus final reads of every digest a commit
// could have produced) must have a linearization.
func c08sessionCommits(env *core.Env) {
	c := env.C
	ctx := context.Background()
	mem := ocimem.New()
	repo := "foo"
	chunk := []byte("ab")
	content := func(k int) []byte { return bytes.Repeat(chunk, k) }
	w0, err := mem.PushBlobChunked(ctx, repo, 0)
	if err != nil {
		core.Harnessf("%v", err)
	}
	id := w0.ID()
	m0 := reg.NewModel(false)
	m0.StrictCodes = false
	m0.Concurrent = true
	m0.Named[repo] = true
	m0.Uploads[0] = &reg.MUpload{Repo: repo, Check: -1}
	pre := c.Range("prewrites", 0, 2)
	for i := 0; i < pre; i++ {
		w0.Write(chunk)
		m0.Uploads[0].Buf = append(m0.Uploads[0].Buf, chunk...)
	}
	ntasks := c.Range("ntasks", 2, 3)
	progs := make([][]*reg.Op, ntasks)
	maxK := pre
	for t := range progs {
		for i, n := 0, c.Range("proglen", 1, 3); i < n; i++ {
			op := &reg.Op{Handle: 0, StopAfter: -1, ContentFault: -1}
			switch c.Weighted("kind", []int{5, 6, 1, 2, 2}) {
			case 0:
				op.Kind, op.Data = reg.UpWrite, chunk
				maxK++
			case 1:
				op.Kind = reg.UpCommit
				op.Digest = reg.Sha256(content(c.Int("commit.k", pre+4)))
			case 2:
				op.Kind = reg.UpCancel
			case 3:
				op.Kind = reg.UpSize
			case 4:
				// what a commit produced is deleted again (a commit that is repeated
				// afterwards and reports success must have stored it again)
				op.Kind, op.Repo = reg.DeleteBlob, repo
				op.Digest = reg.Sha256(content(c.Int("delete.k", pre+4)))
			}
			progs[t] = append(progs[t], op)
		}
	}
	hists := make([][]histEntry, ntasks)
	sched := env.Sched
	// Every task gets its handle on the session before any of them runs: what a resume
	// finds once the session has been committed or cancelled (the finished session, or
	// a fresh one under the same id) is nobody's promise, and a task that only resumed
	// when it was first scheduled would make the history depend on it.
	writers := make([]ociregistry.BlobWriter, ntasks)
	for t := range writers {
		w, err := mem.PushBlobChunkedResume(ctx, repo, id, -1, 0)
		if err != nil {
			core.Harnessf("resume: %v", err)
		}
		writers[t] = w
	}
	for t := 0; t < ntasks; t++ {
		t := t
		sched.Spawn(fmt.Sprintf("client%d", t), func() {
			h := reg.NewHandles()
			h.ID[0] = id
			h.W[0] = writers[t]
			for _, op := range progs[t] {
				sched.Yield()
				e := histEntry{task: t, op: op, call: sched.Seq()}
				e.res = reg.Exec(ctx, mem, op, h)
				e.ret = sched.Seq()
				hists[t] = append(hists[t], e)
			}
		})
	}
	env.Finally(func() {
		var all []histEntry
		for _, h := range hists {
			all = append(all, h...)
		}
		sort.Slice(all, func(i, j int) bool { return all[i].call < all[j].call })
		last := int64(0)
		for _, e := range all {
			last = max(last, e.ret, e.call)
		}
		for k := 0; k <= maxK+1; k++ {
			op := &reg.Op{Kind: reg.GetBlob, Repo: repo, Digest: reg.Sha256(content(k)), StopAfter: -1, ContentFault: -1}
			e := histEntry{task: ntasks, op: op, call: last + 1, ret: last + 2}
			last += 2
			e.res = reg.Exec(ctx, mem, op, nil)
			all = append(all, e)
		}
		for _, e := range all {
			env.Op(e.op.Kind.String() + ":" + reg.CodeOf(e.res.Err))
			env.Logf("task %d [%d,%d] %s -> %s", e.task, e.call, e.ret, e.op, e.res)
			env.Sample("task %d [%d,%d] %s -> %s", e.task, e.call, e.ret, e.op, e.res)
		}
		for _, e := range all {
			if e.op.Kind == reg.GetBlob && e.res.Err == nil && e.res.ReadErr == nil && reg.Sha256(e.res.Data) != e.op.Digest {
				env.Failf(env.Property+"/stored-content-digest-mismatch/session", "%s returned %d bytes that do not hash to the digest asked for", e.op, len(e.res.Data))
			}
		}
		if core.EngineB {
			return
		}
		checkLinearizable(env, m0, all, "C08")
	})
}
