package props

import (
	"context"
	"errors"
	"fmt"
	"io"
	"reflect"
	"time"

	"cuelabs.dev/go/oci/ociregistry"
	"cuelabs.dev/go/oci/ociregistry/ociunify"

	"verifsim/core"
	"verifsim/reg"
)

// C16: concurrent unified reads are leak-free for every answer order and cancellation.
//
// The two members are gated fakes: each read parks in the simulator until it is
// released (0-3 times), then succeeds with a tracked reader, fails, or - in the
// "waits for cancellation" variant - returns as soon as its context is cancelled.
// A canceller task cancels the caller's context at a seeded point. The
// scheduler decides the completion order; the rewritten select statements make
// the choice among ready cases a seeded choice too.
func init() {
	core.Components["C16"] = [2][]string{
		{"ociunify (ReadConcurrent policy): runReadConcurrent, runRead, runReadBlobReader, blobReader.Close", "its goroutines, channels and select statements (rewritten to simulator hooks)"},
		{"the two member registries: gated fakes (ociregistry.Funcs) that record call start/finish, context state and reader Close", "goroutine scheduling and select choice: decided by the simulator inside a testing/synctest bubble (which also detects blocked goroutines at the end)"}}
	core.Rules["C16"] = "one evaluation = one concurrent-policy read (one of the five entry points) over two gated members with seeded outcomes (ok/fail), delays, cancellation sensitivity, caller cancellation point and schedule; distinct = distinct (entry point, outcome pair, completion order, cancel point, select preferences, result) class; non-trivial = both members were called"
	register(&core.Scenario{Name: "c16-concurrent-reads", Property: "C16", Weight: 1, Bubble: true, LeakIsViolation: true, Run: c16})
}

type gatedReader struct {
	data   []byte
	pos    int
	closed int
	member int
	desc   ociregistry.Descriptor
	// closeFails: Close reports an error (the reader is closed all the same)
	closeFails bool
}

func (g *gatedReader) Read(p []byte) (int, error) {
	if g.pos >= len(g.data) {
		return 0, io.EOF
	}
	n := copy(p, g.data[g.pos:])
	g.pos += n
	return n, nil
}
func (g *gatedReader) Close() error {
	g.closed++
	if g.closeFails {
		return errors.New("close failed")
	}
	return nil
}
func (g *gatedReader) Descriptor() ociregistry.Descriptor { return g.desc }

type memberPlan struct {
	closeFails  bool
	ok          bool
	delay       int  // yields before answering
	waitsCancel bool // returns ctx.Err() as soon as its context is cancelled
}

type memberLog struct {
	called   bool
	returned bool
	retSeq   int64
	ctx      context.Context
	reader   *gatedReader
	err      error
}

func c16(env *core.Env) {
	c := env.C
	entry := []string{"GetBlob", "GetBlobRange", "GetManifest", "ResolveBlob", "ResolveManifest"}[c.Int("entry", 5)]
	plans := [2]memberPlan{}
	for i := range plans {
		plans[i] = memberPlan{ok: c.Bool("ok", 1, 2), delay: c.Range("delay", 0, 3), waitsCancel: c.Bool("waitscancel", 1, 4), closeFails: c.Bool("closefails", 1, 4)}
	}
	cancelAt := -1 // number of canceller yields before the caller's context is cancelled
	if c.Bool("cancel", 1, 3) {
		cancelAt = c.Range("cancel.at", 0, 6)
	}
	sched := env.Sched
	logs := [2]*memberLog{{}, {}}
	dig := reg.Sha256([]byte("content"))
	memberErr := [2]error{ociregistry.ErrBlobUnknown, errors.New("member 1 failed")}
	// (a member may fail for reasons of its own that look like a cancellation: its own
	// deadline, its own HTTP client giving up; the caller has cancelled nothing)
	for i := range memberErr {
		switch c.Int("member.errkind", 4) {
		case 1:
			memberErr[i] = fmt.Errorf("member %d gave up: %w", i, context.DeadlineExceeded)
		case 2:
			memberErr[i] = fmt.Errorf("member %d: upstream: %w", i, context.Canceled)
		}
	}
	gate := func(i int, ctx context.Context) error {
		l := logs[i]
		l.called = true
		l.ctx = ctx
		for k := 0; k < plans[i].delay; k++ {
			if plans[i].waitsCancel && ctx.Err() != nil {
				return ctx.Err()
			}
			sched.Yield()
		}
		if plans[i].waitsCancel && ctx.Err() != nil {
			return ctx.Err()
		}
		if !plans[i].ok {
			return memberErr[i]
		}
		return nil
	}
	finish := func(i int, err error) {
		l := logs[i]
		l.returned = true
		l.err = err
		l.retSeq = sched.Seq()
	}
	mkMember := func(i int) ociregistry.Interface {
		rd := func(ctx context.Context) (ociregistry.BlobReader, error) {
			if err := gate(i, ctx); err != nil {
				finish(i, err)
				return nil, err
			}
			r := &gatedReader{closeFails: plans[i].closeFails, data: []byte(fmt.Sprintf("content-from-%d", i)), member: i, desc: ociregistry.Descriptor{Digest: dig, Size: 14, MediaType: "application/octet-stream"}}
			logs[i].reader = r
			finish(i, nil)
			return r, nil
		}
		rs := func(ctx context.Context) (ociregistry.Descriptor, error) {
			if err := gate(i, ctx); err != nil {
				finish(i, err)
				return ociregistry.Descriptor{}, err
			}
			finish(i, nil)
			return ociregistry.Descriptor{Digest: dig, Size: int64(100 + i), MediaType: "application/octet-stream"}, nil
		}
		return &ociregistry.Funcs{
			GetBlob_: func(ctx context.Context, repo string, d ociregistry.Digest) (ociregistry.BlobReader, error) {
				return rd(ctx)
			},
			GetBlobRange_: func(ctx context.Context, repo string, d ociregistry.Digest, o0, o1 int64) (ociregistry.BlobReader, error) {
				return rd(ctx)
			},
			GetManifest_: func(ctx context.Context, repo string, d ociregistry.Digest) (ociregistry.BlobReader, error) {
				return rd(ctx)
			},
			ResolveBlob_: func(ctx context.Context, repo string, d ociregistry.Digest) (ociregistry.Descriptor, error) {
				return rs(ctx)
			},
			ResolveManifest_: func(ctx context.Context, repo string, d ociregistry.Digest) (ociregistry.Descriptor, error) {
				return rs(ctx)
			},
		}
	}
	u := ociunify.New(mkMember(0), mkMember(1), &ociunify.Options{ReadPolicy: ociunify.ReadConcurrent})
	// The caller's context lives on after the call (a long-lived request or server
	// context): whatever the call derived from it has to be released by the call itself,
	// not by the caller going away.
	// One time in three it is a context type of the caller's own, for which the context
	// package parks a goroutine per derived context until that context is cancelled.
	base, cancel := context.WithCancel(context.Background())
	var ctx context.Context = base
	if c.Bool("caller-context-of-its-own-type", 1, 3) {
		ctx = ownContext{base}
	}
	cancelled := false
	var cancelSeq int64
	if cancelAt >= 0 {
		sched.Spawn("canceller", func() {
			for k := 0; k < cancelAt; k++ {
				sched.Yield()
			}
			cancelled = true
			cancelSeq = sched.Seq()
			cancel()
			env.Fault("caller-cancels")
		})
	}
	// the caller (this task)
	var br ociregistry.BlobReader
	var desc ociregistry.Descriptor
	var err error
	callSeq := sched.Seq()
	switch entry {
	case "GetBlob":
		br, err = u.GetBlob(ctx, "repo", dig)
	case "GetBlobRange":
		br, err = u.GetBlobRange(ctx, "repo", dig, 1, 5)
	case "GetManifest":
		br, err = u.GetManifest(ctx, "repo", dig)
	case "ResolveBlob":
		desc, err = u.ResolveBlob(ctx, "repo", dig)
	case "ResolveManifest":
		desc, err = u.ResolveManifest(ctx, "repo", dig)
	}
	retSeq := sched.Seq()
	cancelledBeforeReturn := cancelled && cancelSeq < retSeq
	isReader := entry == "GetBlob" || entry == "GetBlobRange" || entry == "GetManifest"
	class := func(k string) string { return "C16/" + entry + "/" + k }
	describe := func() string {
		return fmt.Sprintf("%s: members %+v %+v, caller cancel at %d (cancelled before return: %v); member0 returned=%v err=%v seq=%d; member1 returned=%v err=%v seq=%d; call [%d,%d] -> err=%v",
			entry, plans[0], plans[1], cancelAt, cancelledBeforeReturn, logs[0].returned, logs[0].err, logs[0].retSeq, logs[1].returned, logs[1].err, logs[1].retSeq, callSeq, retSeq, err)
	}
	env.Sample("%s", describe())
	winner := -1
	if err == nil {
		if isReader {
			for i := range logs {
				if inner := innerReader(br); inner != nil && logs[i].reader == inner {
					winner = i
				}
			}
			if winner < 0 {
				env.Failf(class("foreign-reader"), "the call returned a reader that no member produced. %s", describe())
			}
		} else {
			winner = int(desc.Size - 100)
			if winner != 0 && winner != 1 {
				env.Failf(class("foreign-result"), "the call returned a descriptor no member produced. %s", describe())
			}
		}
		if !logs[winner].returned || logs[winner].err != nil {
			env.Failf(class("result-from-failed-member"), "the result comes from a member that did not succeed. %s", describe())
		}
		// the chosen member's context stays live until the returned reader is closed
		if isReader {
			if logs[winner].ctx.Err() != nil && !cancelled {
				env.Failf(class("winner-context-cancelled-early"), "the context given to the chosen member was cancelled before the returned reader was closed. %s", describe())
			}
		}
	} else {
		// an error only when both failed or the caller cancelled
		oneOK := false
		for i := range logs {
			if logs[i].returned && logs[i].err == nil && logs[i].retSeq < retSeq {
				oneOK = true
			}
		}
		if oneOK && !cancelledBeforeReturn {
			env.Failf(class("error-despite-success"), "the call failed although a member had answered successfully and the caller had not cancelled. %s", describe())
		}
		bothFailed := logs[0].returned && logs[0].err != nil && logs[1].returned && logs[1].err != nil
		if !bothFailed && !cancelledBeforeReturn {
			env.Failf(class("error-before-both-failed"), "the call failed although not both members had failed and the caller had not cancelled. %s", describe())
		}
	}
	outcome := "error"
	if err == nil {
		outcome = fmt.Sprintf("winner%d", winner)
	}
	order := "?"
	switch {
	case logs[0].returned && logs[1].returned && logs[0].retSeq < logs[1].retSeq:
		order = "0<1"
	case logs[0].returned && logs[1].returned:
		order = "1<0"
	case logs[0].returned:
		order = "only0"
	case logs[1].returned:
		order = "only1"
	}
	env.Op(fmt.Sprintf("%s/%v%v/%v%v/%s/cancel%d/%s", entry, plans[0].ok, plans[1].ok, plans[0].waitsCancel, plans[1].waitsCancel, order, cancelAt, outcome))
	if plans[0].ok && plans[1].ok && order != "?" {
		env.Probe("c16:both-members-succeeded")
	}
	if cancelledBeforeReturn {
		env.Probe("c16:cancelled-before-return")
	}
	// use and close the returned reader
	if err == nil && isReader {
		for k, n := 0, c.Range("hold", 0, 2); k < n; k++ {
			sched.Yield()
			if logs[winner].ctx.Err() != nil && !cancelled {
				env.Failf(class("winner-context-cancelled-early"), "the chosen member's context was cancelled while the returned reader was still open. %s", describe())
			}
		}
		// reading - a part, everything, past the end - is use, not release: the context
		// stays live until Close
		switch c.Int("read.how", 4) {
		case 0:
		case 1:
			br.Read(make([]byte, 1))
		case 2:
			io.ReadAll(br)
		case 3:
			io.ReadAll(br)
			br.Read(make([]byte, 4)) // again, at the end
		}
		if logs[winner].ctx.Err() != nil && !cancelled {
			env.Failf(class("winner-context-cancelled-early"), "the chosen member's context was cancelled by reading from the returned reader, before it was closed. %s", describe())
		}
		br.Close()
		// ... and is cancelled afterwards (whether or not the member's Close reported an error)
		if logs[winner].ctx.Err() == nil {
			env.Failf(class("context-not-cancelled"), "the returned reader was closed (member Close fails: %v) but the context given to the chosen member is still live. %s", plans[winner].closeFails, describe())
		}
	}
	if err == nil && !isReader && logs[winner].ctx.Err() == nil {
		// resolve-style reads have nothing to keep open: the chosen member's context is
		// cancelled before the call returns (the other member's is cancelled by its own
		// goroutine once it runs, which the end-of-run check covers)
		env.Failf(class("context-not-cancelled"), "a resolve-style read returned but the context given to the chosen member %d is still live. %s", winner, describe())
	}
	w := winner
	env.Finally(func() {
		// every goroutine has finished here (otherwise the bubble reports the leak)
		for i := range logs {
			l := logs[i]
			if !l.called {
				continue
			}
			if !l.returned {
				env.Failf(class("member-never-returned"), "member %d was called but never returned. %s", i, describe())
			}
			if l.reader != nil && l.reader.closed == 0 {
				who := "the member that was not chosen"
				if i == w {
					who = "the chosen member (closed by the caller through the returned reader)"
				}
				env.Failf(class("reader-not-closed"), "the reader opened on member %d (%s) was never closed. %s", i, who, describe())
			}
			if l.ctx != nil && l.ctx.Err() == nil {
				env.Failf(class("context-not-cancelled"), "the context given to member %d is still live after the call and its reader are finished (the caller's context is still live: nothing but the call can release it). %s", i, describe())
			}
		}
		// (the caller's context is never cancelled unless the plan says so: it is
		// garbage with the run)
	})
}

// ownContext is a context of a type the context package does not know: deriving a
// cancellable context from it starts a goroutine that waits for either to end.
type ownContext struct{ inner context.Context }

func (c ownContext) Deadline() (time.Time, bool) { return c.inner.Deadline() }
func (c ownContext) Done() <-chan struct{}       { return c.inner.Done() }
func (c ownContext) Err() error                  { return c.inner.Err() }
func (c ownContext) Value(k any) any             { return c.inner.Value(k) }

// innerReader unwraps the reader returned by ociunify (it embeds the member's reader).
func innerReader(br ociregistry.BlobReader) *gatedReader {
	if g, ok := br.(*gatedReader); ok {
		return g
	}
	// ociunify.blobReader is an unexported struct embedding ociregistry.BlobReader:
	// reach the embedded value through its method set only - compare by behaviour.
	type unwrapper interface{ Descriptor() ociregistry.Descriptor }
	_ = unwrapper(br)
	return findGated(br)
}

func findGated(br ociregistry.BlobReader) *gatedReader {
	v := reflect.ValueOf(br)
	for depth := 0; depth < 4 && v.IsValid(); depth++ {
		if v.Kind() == reflect.Interface || v.Kind() == reflect.Ptr {
			if v.IsNil() {
				return nil
			}
			if g, ok := v.Interface().(*gatedReader); ok {
				return g
			}
			v = v.Elem()
			continue
		}
		if v.Kind() == reflect.Struct {
			f := v.FieldByName("BlobReader")
			if !f.IsValid() || !f.CanInterface() {
				return nil
			}
			if g, ok := f.Interface().(*gatedReader); ok {
				return g
			}
			v = f
			continue
		}
		return nil
	}
	return nil
}
