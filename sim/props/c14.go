package props

import (
	"bytes"
	"context"
	"encoding/json"
	"errors"
	"fmt"
	"strings"

	"cuelabs.dev/go/oci/ociregistry"
	"cuelabs.dev/go/oci/ociregistry/ocifilter"
	"cuelabs.dev/go/oci/ociregistry/ocimem"

	"verifsim/core"
	"verifsim/reg"
)

// C14: read-only, immutable and immutable-tags modes hold for every history.
func init() {
	core.Components["C14"] = [2][]string{
		{"ocifilter.ReadOnly", "ocifilter.Immutable", "ocimem with ImmutableTags (sequential and concurrent)", "ociregistry.Funcs (embedded nil table)"},
		{"goroutine scheduling in the concurrent family: decided by the simulator (engine A: synctest bubble; engine B: raw-pipe hand-off under -race)"}}
	core.Rules["C14"] = "one evaluation = one generated history (10-50 calls) through ReadOnly / Immutable / an immutable-tags ocimem, or one concurrent run of 2-4 tasks against an immutable-tags ocimem under a seeded schedule; distinct = distinct sequence of (operation kind, outcome) tokens / schedule signature; non-trivial = at least one call issued"
	core.Assumptions["C14"] = []string{"'transitively references' follows what a puller would fetch: each manifest is parsed by the media type the registry serves it with; subject edges are not required to be protected"}
	register(&core.Scenario{Name: "c14-readonly", Property: "C14", Weight: 2, Run: c14readonly})
	register(&core.Scenario{Name: "c14-immutable-wrapper", Property: "C14", Weight: 3, Run: func(env *core.Env) { c14immutable(env, true) }})
	register(&core.Scenario{Name: "c14-immutable-tags", Property: "C14", Weight: 3, Run: func(env *core.Env) { c14immutable(env, false) }})
	register(&core.Scenario{Name: "c14-immutable-tags-concurrent", Property: "C14", Weight: 3, Bubble: true, Run: c14concurrent})
	register(&core.Scenario{Name: "c14-immutable-wrapper-concurrent-deletes", Property: "C14", Weight: 1, Bubble: true, Run: c14wrapperConcurrent})
}

func isMutating(k reg.Kind) bool {
	switch k {
	case reg.PushBlob, reg.MountBlob, reg.PushManifest, reg.DeleteBlob, reg.DeleteManifest, reg.DeleteTag, reg.UpStart, reg.UpResume:
		return true
	}
	return false
}

func c14readonly(env *core.Env) {
	c := env.C
	ctx := context.Background()
	immutable := c.Bool("immutable", 1, 3)
	mem := ocimem.NewWithConfig(&ocimem.Config{ImmutableTags: immutable})
	m := reg.NewModel(immutable)
	m.StrictCodes = false
	cfg := reg.GenConfig{Repos: pickSome(c, "repos", repoNames, 1, 3), Tags: pickSome(c, "tags", tagNames, 1, 3), MaxBlob: 50, Weights: reg.DefaultWeights(), Uploads: false, Stops: true, SmallReads: true}
	g := reg.NewGen(c, m, cfg)
	// populate the underlying registry directly
	setup := reg.NewHandles()
	for i, n := 0, c.Range("nsetup", 3, 15); i < n; i++ {
		op := g.Next()
		if !isMutating(op.Kind) {
			continue
		}
		m.Step(op, reg.Exec(ctx, mem, op, setup))
	}
	before := m.Canon()
	// what the underlying registry shows of itself, asked directly: lists, and what
	// every tag resolves to - also a tag whose manifest has been deleted from under it
	seenBefore := c14observe(ctx, mem, m)
	tracker := reg.NewTracker()
	ro := ocifilter.ReadOnly(reg.Wrap(mem, tracker, nil))
	cfg.Uploads = true
	g2 := reg.NewGen(c, m, cfg)
	h := reg.NewHandles()
	n := c.Range("nops", 10, 50)
	if env.Tier == "thorough" && c.Bool("deep", 1, 3) {
		n = c.Range("nops.deep", 50, 200)
	}
	env.Sample("read-only view over a registry with state %s", before)
	for i := 0; i < n; i++ {
		op := g2.Next()
		if op.Kind > reg.UpResume {
			continue
		}
		tracker.Reset()
		res := reg.Exec(ctx, ro, op, h)
		env.Op(op.Kind.String() + ":" + reg.CodeOf(res.Err))
		env.Logf("%d %s -> %s", i, op, res)
		env.Sample("%s -> %s", op, res)
		if isMutating(op.Kind) {
			if res.Err == nil {
				env.Failf("C14/readonly/"+op.Kind.String()+"/accepted", "%s succeeded through the read-only wrapper: %s", op, res)
			}
			if !errors.Is(res.Err, ociregistry.ErrUnsupported) {
				env.Failf("C14/readonly/"+op.Kind.String()+"/wrong-error", "%s through the read-only wrapper failed with %s, want UNSUPPORTED: %v", op, reg.CodeOf(res.Err), res.Err)
			}
			if len(tracker.Calls) > 0 {
				env.Failf("C14/readonly/"+op.Kind.String()+"/reached-backend", "%s through the read-only wrapper reached the underlying registry: %s", op, tracker.Calls[0])
			}
			continue
		}
		if ok, why := m.Step(op, res); !ok {
			env.Failf(classOf("C14/readonly", op, why), "step %d: %s\n  result: %s\n  model: %s", i, op, res, why)
		}
	}
	if after := m.Canon(); after != before {
		core.Harnessf("model changed by reads")
	}
	readBack(env, ctx, mem, m, "C14/readonly/underlying-changed")
	if seenAfter := c14observe(ctx, mem, m); seenAfter != seenBefore {
		env.Failf("C14/readonly/underlying-changed", "calls through the read-only wrapper changed what the underlying registry shows:\n  before: %s\n  after:  %s", seenBefore, seenAfter)
	}
}

// c14observe asks r directly for its lists and for what every tag the model knows
// resolves to (or fails with).
func c14observe(ctx context.Context, r ociregistry.Interface, m *reg.Model) string {
	var sb strings.Builder
	repos, err := ociregistry.All(r.Repositories(ctx, ""))
	fmt.Fprintf(&sb, "repositories %v %s;", repos, reg.CodeOf(err))
	for _, name := range sortedKeys(m.Repos) {
		tags, err := ociregistry.All(r.Tags(ctx, name, ""))
		fmt.Fprintf(&sb, " %s: tags %v %s", name, tags, reg.CodeOf(err))
		for _, t := range sortedKeys(m.Repos[name].Tags) {
			d, err := r.ResolveTag(ctx, name, t)
			fmt.Fprintf(&sb, " %s=%s/%s", t, d.Digest, reg.CodeOf(err))
		}
		sb.WriteString(";")
	}
	return sb.String()
}

// readBack checks that everything the model holds is retrievable from r.
func readBack(env *core.Env, ctx context.Context, r ociregistry.Interface, m *reg.Model, class string) {
	for _, name := range sortedKeys(m.Repos) {
		repo := m.Repos[name]
		for _, d := range sortedKeys(repo.Blobs) {
			data := repo.Blobs[d]
			res := reg.Exec(ctx, r, &reg.Op{Kind: reg.GetBlob, Repo: name, Digest: d, StopAfter: -1, ContentFault: -1}, nil)
			if res.Err != nil || !bytes.Equal(res.Data, data) {
				env.Failf(class, "blob %s in %q is no longer served as pushed (%s)", d, name, res)
			}
		}
		for _, d := range sortedKeys(repo.Manifests) {
			mm := repo.Manifests[d]
			res := reg.Exec(ctx, r, &reg.Op{Kind: reg.GetManifest, Repo: name, Digest: d, StopAfter: -1, ContentFault: -1}, nil)
			if res.Err != nil || !bytes.Equal(res.Data, mm.Data) {
				env.Failf(class, "manifest %s in %q is no longer served as pushed (%s)", d, name, res)
			}
		}
		for t, tg := range repo.Tags {
			if tg.Dangling {
				continue
			}
			res := reg.Exec(ctx, r, &reg.Op{Kind: reg.ResolveTag, Repo: name, Tag: t, StopAfter: -1, ContentFault: -1}, nil)
			if res.Err != nil || res.Desc.Digest != tg.Digest {
				env.Failf(class, "tag %q in %q no longer resolves to %s (%s)", t, name, tg.Digest, res)
			}
		}
	}
}

type tagObs struct {
	digest  ociregistry.Digest
	data    []byte
	closure []closureItem // what the tag transitively referenced when first observed
}

// closureItem is one thing a puller of a tag would fetch.
type closureItem struct {
	manifest bool
	digest   ociregistry.Digest
}

// closureOf walks everything a puller of the manifest would fetch (each manifest
// parsed by the media type it is served with) and returns what is retrievable now.
func closureOf(ctx context.Context, r ociregistry.Interface, repo string, dig ociregistry.Digest, depth int, out *[]closureItem) {
	br, err := r.GetManifest(ctx, repo, dig)
	if err != nil {
		return
	}
	mt := br.Descriptor().MediaType
	data, err := readAll(br)
	if err != nil {
		return
	}
	*out = append(*out, closureItem{true, dig})
	if depth > 6 {
		return
	}
	var jm struct {
		Config    *struct{ Digest ociregistry.Digest }  `json:"config"`
		Layers    []struct{ Digest ociregistry.Digest } `json:"layers"`
		Manifests []struct{ Digest ociregistry.Digest } `json:"manifests"`
	}
	switch mt {
	case reg.MTImageManifest:
		if json.Unmarshal(data, &jm) != nil {
			return
		}
		var blobs []ociregistry.Digest
		if jm.Config != nil {
			blobs = append(blobs, jm.Config.Digest)
		}
		for _, l := range jm.Layers {
			blobs = append(blobs, l.Digest)
		}
		for _, b := range blobs {
			if _, err := r.ResolveBlob(ctx, repo, b); err == nil {
				*out = append(*out, closureItem{false, b})
			}
		}
	case reg.MTImageIndex:
		if json.Unmarshal(data, &jm) != nil {
			return
		}
		for _, c := range jm.Manifests {
			closureOf(ctx, r, repo, c.Digest, depth+1, out)
		}
	}
}

// closureRetrievable checks that everything in items is still retrievable.
func closureRetrievable(ctx context.Context, r ociregistry.Interface, repo string, items []closureItem) error {
	for _, it := range items {
		if it.manifest {
			br, err := r.GetManifest(ctx, repo, it.digest)
			if err != nil {
				return fmt.Errorf("manifest %s: %v", it.digest, err)
			}
			data, err := readAll(br)
			if err != nil || reg.Sha256(data) != it.digest {
				return fmt.Errorf("manifest %s: served bytes do not hash to it (%v)", it.digest, err)
			}
		} else if _, err := r.ResolveBlob(ctx, repo, it.digest); err != nil {
			return fmt.Errorf("blob %s: %v", it.digest, err)
		}
	}
	return nil
}

func c14immutable(env *core.Env, wrapper bool) {
	c := env.C
	ctx := context.Background()
	var mem *ocimem.Registry
	var r ociregistry.Interface
	faultsOn := false
	if wrapper {
		mem = ocimem.New()
		var under ociregistry.Interface = mem
		if c.Bool("backend.faults", 1, 2) {
			// the registry under the wrapper is transiently unavailable for reads:
			// whatever the wrapper asks it before deciding may fail
			rate := c.Range("backend.faultrate", 2, 6)
			under = reg.Wrap(mem, reg.NewTracker(), &reg.FaultPlan{CallErr: func(call *reg.Call) error {
				if !faultsOn {
					return nil
				}
				switch call.Method {
				case "ResolveTag", "ResolveManifest", "ResolveBlob", "GetTag", "GetManifest", "GetBlob", "GetBlobRange":
					if c.Bool("backend.fault", 1, rate) {
						env.Fault("backend-read-fails")
						if c.Bool("backend.fault.coded", 1, 2) {
							// (a rate limit, an access-control hiccup, a token that has just expired)
							return []error{ociregistry.ErrTooManyRequests, ociregistry.ErrDenied, ociregistry.ErrUnauthorized}[c.Int("backend.fault.code", 3)]
						}
						return errors.New("backend unavailable")
					}
				}
				return nil
			}})
		}
		r = ocifilter.Immutable(under)
	} else {
		mem = ocimem.NewWithConfig(&ocimem.Config{ImmutableTags: true})
		r = mem
	}
	m := reg.NewModel(!wrapper)
	m.StrictCodes = false
	cfg := reg.GenConfig{Repos: pickSome(c, "repos", repoNames, 1, 2), Tags: pickSome(c, "tags", tagNames, 1, 3), MaxBlob: 50, Weights: reg.DefaultWeights(), Uploads: true, AltAlgo: false, Motifs: true}
	w := &cfg.Weights
	w[reg.PushManifest], w[reg.DeleteBlob], w[reg.DeleteManifest], w[reg.DeleteTag], w[reg.GetTag], w[reg.ResolveTag] = 16, 8, 8, 6, 8, 8
	g := reg.NewGen(c, m, cfg)
	h := reg.NewHandles()
	first := map[string]tagObs{}
	n := c.Range("nops", 10, 50)
	if env.Tier == "thorough" && c.Bool("deep", 1, 3) {
		n = c.Range("nops.deep", 50, 200)
	}
	mode := "immutable-tags"
	if wrapper {
		mode = "immutable-wrapper"
	}
	env.Sample("%s repos=%v tags=%v", mode, cfg.Repos, cfg.Tags)
	observe := func(repo, tag string, dig ociregistry.Digest, data []byte, how string) {
		key := repo + ":" + tag
		if f, ok := first[key]; ok {
			if f.digest != dig {
				env.Failf("C14/"+mode+"/tag-moved", "%s %s now gives digest %s; it was first observed as %s", how, key, dig, f.digest)
			}
			if data != nil && f.data != nil && !bytes.Equal(data, f.data) {
				env.Failf("C14/"+mode+"/tag-bytes-changed", "%s %s now serves other bytes than when first observed", how, key)
			}
			if f.data == nil && data != nil {
				f.data = data
				first[key] = f
			}
			return
		}
		o := tagObs{digest: dig, data: data}
		closureOf(ctx, r, repo, dig, 0, &o.closure)
		first[key] = o
	}
	for i := 0; i < n; i++ {
		op := g.Next()
		faultsOn = true
		res := reg.Exec(ctx, r, op, h)
		faultsOn = false // the oracle's own reads see the registry as it is
		env.Op(op.Kind.String() + ":" + reg.CodeOf(res.Err))
		env.Logf("%d %s -> %s", i, op, res)
		env.Sample("%s -> %s", op, res)
		switch op.Kind {
		case reg.DeleteBlob, reg.DeleteManifest, reg.DeleteTag:
			if wrapper && res.Err == nil {
				env.Failf("C14/"+mode+"/"+op.Kind.String()+"/delete-succeeded", "%s succeeded through the immutable wrapper", op)
			}
		case reg.ResolveTag:
			if res.Err == nil {
				observe(op.Repo, op.Tag, res.Desc.Digest, nil, "ResolveTag")
			}
		case reg.GetTag:
			if res.Err == nil && res.ReadErr == nil {
				observe(op.Repo, op.Tag, res.Desc.Digest, res.Data, "GetTag")
			}
		case reg.PushManifest:
			if res.Err == nil && op.Tag != "" {
				observe(op.Repo, op.Tag, res.Desc.Digest, nil, "PushManifest")
			}
		}
		if wrapper {
			// the model underneath is a mutable registry that never sees a delete or a tag move
			if res.Err == nil || !isMutating(op.Kind) {
				m.Step(op, res)
			}
		} else if ok, why := m.Step(op, res); !ok {
			env.Failf(classOf("C14/"+mode, op, why), "step %d: %s\n  result: %s\n  model: %s", i, op, res, why)
		}
		// everything a tagged manifest transitively references stays retrievable
		for _, key := range sortedKeys(first) {
			f := first[key]
			repo, _, _ := cutLastColon(key)
			if err := closureRetrievable(ctx, r, repo, f.closure); err != nil {
				env.Failf("C14/"+mode+"/closure-broken/after-"+op.Kind.String(), "after %s: something %s referenced when it was first observed is no longer retrievable: %v", op, key, err)
			}
		}
	}
	// forever: at the end every observation still holds
	for _, key := range sortedKeys(first) {
		f := first[key]
		repo, tag, _ := cutLastColon(key)
		res := reg.Exec(ctx, r, &reg.Op{Kind: reg.GetTag, Repo: repo, Tag: tag, StopAfter: -1, ContentFault: -1}, nil)
		if res.Err != nil {
			env.Failf("C14/"+mode+"/tag-lost", "%s no longer resolves: %v", key, res.Err)
		}
		observe(repo, tag, res.Desc.Digest, res.Data, "final GetTag")
		_ = f
	}
}

func cutLastColon(s string) (string, string, bool) {
	for i := len(s) - 1; i >= 0; i-- {
		if s[i] == ':' {
			return s[:i], s[i+1:], true
		}
	}
	return s, "", false
}

// c14concurrent: immutable-tags mode under concurrency (engines A and B).
func c14concurrent(env *core.Env) {
	c := env.C
	ctx := context.Background()
	pools := mkPools(c)
	mem := ocimem.NewWithConfig(&ocimem.Config{ImmutableTags: true})
	ntasks, maxLen := c.Range("ntasks", 2, 4), 7
	if env.Tier == "thorough" && c.Bool("deep", 1, 3) {
		ntasks, maxLen = c.Range("ntasks.deep", 4, 12), 12
	}
	progs := make([][]*reg.Op, ntasks)
	for t := range progs {
		for i, n := 0, c.Range("proglen", 2, maxLen); i < n; i++ {
			progs[t] = append(progs[t], pools.genOp(c, false, false))
		}
	}
	// make sure blob 0 exists so that image manifests can be pushed
	b0 := pools.blobs[0]
	for _, r := range pools.repos {
		mem.PushBlob(ctx, r, ociregistry.Descriptor{Digest: reg.Sha256(b0), Size: int64(len(b0)), MediaType: "application/octet-stream"}, bytes.NewReader(b0))
	}
	hists := make([][]histEntry, ntasks)
	sched := env.Sched
	for t := 0; t < ntasks; t++ {
		t := t
		sched.Spawn(fmt.Sprintf("client%d", t), func() {
			h := reg.NewHandles()
			for _, op := range progs[t] {
				sched.Yield()
				e := histEntry{task: t, op: op, call: sched.Seq()}
				e.res = reg.Exec(ctx, mem, op, h)
				e.ret = sched.Seq()
				hists[t] = append(hists[t], e)
			}
		})
	}
	env.Finally(func() {
		seen := map[string]ociregistry.Digest{}
		for t, hst := range hists {
			for _, e := range hst {
				env.Op(e.op.Kind.String())
				env.Logf("task %d [%d,%d] %s -> %s", t, e.call, e.ret, e.op, e.res)
				env.Sample("task %d [%d,%d] %s -> %s", t, e.call, e.ret, e.op, e.res)
				var dig ociregistry.Digest
				switch {
				case (e.op.Kind == reg.ResolveTag || e.op.Kind == reg.GetTag) && e.res.Err == nil:
					dig = e.res.Desc.Digest
				case e.op.Kind == reg.PushManifest && e.op.Tag != "" && e.res.Err == nil:
					dig = e.res.Desc.Digest
				case e.op.Kind == reg.DeleteTag && e.res.Err == nil:
					env.Failf("C14/immutable-tags-concurrent/tag-deleted", "task %d: %s succeeded in immutable-tags mode", t, e.op)
				default:
					continue
				}
				key := e.op.Repo + ":" + e.op.Tag
				if prev, ok := seen[key]; ok && prev != dig {
					env.Failf("C14/immutable-tags-concurrent/tag-moved", "%s was observed with digest %s and with digest %s in one run (task %d, %s)", key, prev, dig, t, e.op)
				}
				seen[key] = dig
			}
		}
		for _, key := range sortedKeys(seen) {
			dig := seen[key]
			repo, tag, _ := cutLastColon(key)
			d, err := mem.ResolveTag(ctx, repo, tag)
			if err != nil || d.Digest != dig {
				env.Failf("C14/immutable-tags-concurrent/tag-lost", "%s was observed as %s but finally resolves to %v (%v)", key, dig, d.Digest, err)
			}
			if err := closureRetrievable(ctx, mem, repo, []closureItem{{true, dig}}); err != nil {
				env.Failf("C14/immutable-tags-concurrent/closure-broken", "at the end of the run the manifest %s points at is not retrievable: %v", key, err)
			}
		}
	})
}

// c14wrapperConcurrent: the delete clause of the immutable wrapper ("nothing is
// ever deleted") under concurrent callers. Tag stability is not checked here: the
// statement claims it under concurrency only for the in-memory registry's
// immutable-tags mode, and the wrapper's source documents its race window.
func c14wrapperConcurrent(env *core.Env) {
	c := env.C
	ctx := context.Background()
	pools := mkPools(c)
	mem := ocimem.New()
	r := ocifilter.Immutable(mem)
	ntasks, maxLen := c.Range("ntasks", 2, 4), 7
	if env.Tier == "thorough" && c.Bool("deep", 1, 3) {
		ntasks, maxLen = c.Range("ntasks.deep", 4, 12), 12
	}
	progs := make([][]*reg.Op, ntasks)
	for t := range progs {
		for i, n := 0, c.Range("proglen", 2, maxLen); i < n; i++ {
			progs[t] = append(progs[t], pools.genOp(c, false, false))
		}
	}
	b0 := pools.blobs[0]
	for _, rp := range pools.repos {
		mem.PushBlob(ctx, rp, ociregistry.Descriptor{Digest: reg.Sha256(b0), Size: int64(len(b0)), MediaType: "application/octet-stream"}, bytes.NewReader(b0))
	}
	hists := make([][]histEntry, ntasks)
	sched := env.Sched
	for t := 0; t < ntasks; t++ {
		t := t
		sched.Spawn(fmt.Sprintf("client%d", t), func() {
			h := reg.NewHandles()
			for _, op := range progs[t] {
				sched.Yield()
				e := histEntry{task: t, op: op, call: sched.Seq()}
				e.res = reg.Exec(ctx, r, op, h)
				e.ret = sched.Seq()
				hists[t] = append(hists[t], e)
			}
		})
	}
	env.Finally(func() {
		for t, hst := range hists {
			for _, e := range hst {
				env.Op(e.op.Kind.String())
				env.Logf("task %d [%d,%d] %s -> %s", t, e.call, e.ret, e.op, e.res)
				env.Sample("task %d [%d,%d] %s -> %s", t, e.call, e.ret, e.op, e.res)
				if e.res.Err != nil {
					continue
				}
				switch e.op.Kind {
				case reg.DeleteBlob, reg.DeleteManifest, reg.DeleteTag:
					env.Failf("C14/immutable-wrapper-concurrent/"+e.op.Kind.String()+"/delete-succeeded", "task %d: %s succeeded through the immutable wrapper", t, e.op)
				case reg.PushBlob, reg.MountBlob, reg.ResolveBlob:
					if _, err := mem.ResolveBlob(ctx, e.op.Repo, e.op.Digest); err != nil {
						env.Failf("C14/immutable-wrapper-concurrent/blob-lost", "task %d: %s succeeded, but at the end the blob is gone: %v", t, e.op, err)
					}
				case reg.PushManifest, reg.ResolveManifest:
					d := e.res.Desc.Digest
					if _, err := mem.ResolveManifest(ctx, e.op.Repo, d); err != nil {
						env.Failf("C14/immutable-wrapper-concurrent/manifest-lost", "task %d: %s succeeded, but at the end manifest %s is gone: %v", t, e.op, d, err)
					}
					if e.op.Tag != "" {
						if _, err := mem.ResolveTag(ctx, e.op.Repo, e.op.Tag); err != nil {
							env.Failf("C14/immutable-wrapper-concurrent/tag-lost", "task %d: %s succeeded, but at the end the tag is gone: %v", t, e.op, err)
						}
					}
				case reg.ResolveTag, reg.GetTag:
					if _, err := mem.ResolveTag(ctx, e.op.Repo, e.op.Tag); err != nil {
						env.Failf("C14/immutable-wrapper-concurrent/tag-lost", "task %d: %s succeeded, but at the end the tag is gone: %v", t, e.op, err)
					}
				}
			}
		}
	})
}
