package props

import (
	"bytes"
	"context"
	"net/http/httptest"
	"slices"
	"strings"

	"cuelabs.dev/go/oci/ociregistry/ociclient"
	"cuelabs.dev/go/oci/ociregistry/ociserver"

	"verifsim/core"
	"verifsim/reg"
)

// Stub fidelity self-test (DESIGN.md 4.11): the same seeded, fault-free history
// is executed through the simulated transport and through a real loopback
// net/http server + transport; every observable result must be identical. It is
// registered under the pseudo-property SELF (not in MANIFEST.json) and run by
// ./check selftest.
func init() {
	register(&core.Scenario{Name: "self-stub-fidelity", Property: "SELF", Weight: 1, Run: selfStub})
}

func selfStub(env *core.Env) {
	c := env.C
	ctx := context.Background()
	immutable := c.Bool("immutable", 1, 3)
	opts := ociserver.Options{
		OmitDigestFromTagGetResponse: c.Bool("omitdigest", 1, 3),
		OmitLinkHeaderFromResponses:  c.Bool("omitlink", 1, 3),
		DisableSinglePostUpload:      c.Bool("nosinglepost", 1, 3),
	}
	pageSize := []int{0, 1, 2, 3}[c.Int("pagesize", 4)]
	so := &stackOpts{Kind: "mem+http1", Immutable: immutable, Server: opts, PageSize: pageSize}
	sim := buildStack(env, so)
	realMem := newMem(immutable)
	srv := httptest.NewServer(ociserver.New(realMem, &opts))
	defer srv.Close()
	realClient, err := ociclient.New(strings.TrimPrefix(srv.URL, "http://"), &ociclient.Options{Insecure: true, ListPageSize: pageSize})
	if err != nil {
		core.Harnessf("%v", err)
	}
	m := reg.NewModel(immutable)
	m.StrictCodes = false
	cfg := reg.GenConfig{Repos: pickSome(c, "repos", repoNames, 1, 3), Tags: pickSome(c, "tags", tagNames, 1, 2), MaxBlob: 300, Weights: reg.DefaultWeights(),
		BadPush: true, AltAlgo: true, Uploads: true, HTTPSafe: true, Stops: true, SmallReads: true}
	if c.Bool("big", 1, 5) {
		cfg.MaxBlob = 140000
	}
	g := reg.NewGen(c, m, cfg)
	hS, hR := reg.NewHandles(), reg.NewHandles()
	n := c.Range("nops", 10, 40)
	for i := 0; i < n; i++ {
		op := g.Next()
		rS := reg.Exec(ctx, sim.Reg, op, hS)
		rR := reg.Exec(ctx, realClient, op, hR)
		m.Step(op, rS)
		env.Op(op.Kind.String())
		env.Logf("%d %s -> sim: %s | real: %s", i, op, rS, rR)
		same := (rS.Err == nil) == (rR.Err == nil) && reg.CodeOf(rS.Err) == reg.CodeOf(rR.Err) &&
			(rS.ListErr == nil) == (rR.ListErr == nil) && rS.Desc.Digest == rR.Desc.Digest && rS.Desc.Size == rR.Desc.Size && rS.Desc.MediaType == rR.Desc.MediaType &&
			bytes.Equal(rS.Data, rR.Data) && (rS.ReadErr == nil) == (rR.ReadErr == nil) && slices.Equal(rS.Items, rR.Items) && len(rS.Descs) == len(rR.Descs) &&
			rS.N == rR.N && rS.Size == rR.Size
		if rS.Err != nil && rR.Err != nil && statusOf(rS.Err) != statusOf(rR.Err) {
			same = false
		}
		if !same {
			env.Failf("SELF/stub-differs/"+op.Kind.String(), "step %d %s: the simulated transport and a real loopback net/http server disagree\n  simulated: %s\n  real:      %s", i, op, rS, rR)
		}
	}
}
