package props

import (
	"encoding/base64"
	"encoding/json"
	"errors"
	"fmt"
	"os"
	"path/filepath"
	"sort"
	"strings"

	"cuelabs.dev/go/oci/ociregistry/ociauth"

	"verifsim/core"
)

// C19: credential lookup from config files is deterministic with fixed precedence.
//
// The nondeterminism under control is Go's map iteration order (the decoder
// extends the auths map while ranging over it): in the instrumented copy every
// map range is a seeded permutation, including the choice whether entries added
// during the iteration are visited. One generated document is decoded and
// queried under 8 different orders and lookup sequences; all must agree with
// each other and with a reference precedence function.
func init() {
	core.Components["C19"] = [2][]string{
		{"ociauth.LoadWithEnv, decodeConfigFile, ConfigFile.EntryForRegistry, decodeAuth (real file I/O on a temporary config.json)"},
		{"credential helpers: an injected HelperRunner with scripted behaviours", "map iteration order: seeded permutation through the rewritten range statements"}}
	core.Rules["C19"] = "one evaluation = one generated config document (host keys, http/https URL keys with paths, colliding keys; username/password, base64 auth incl. malformed and NUL-padded, identitytoken, registrytoken; credsStore; credHelpers) with scripted helper behaviours, decoded 8 times under different seeded map iteration orders and queried in different orders; distinct = distinct (key shapes, field shapes, store/helper shape, helper behaviours, outcome) tuple; non-trivial = the document decoded or was rejected consistently"
	core.Assumptions["C19"] = []string{"an entry that sets both identitytoken and username is reported as ambiguous by the implementation; the statement is silent, so only its order-independence is checked"}
	register(&core.Scenario{Name: "c19-config-lookup", Property: "C19", Weight: 8, Run: c19})
}

type c19Entry struct {
	Username      string `json:"username,omitempty"`
	Password      string `json:"password,omitempty"`
	Auth          string `json:"auth,omitempty"`
	IdentityToken string `json:"identitytoken,omitempty"`
	RegistryToken string `json:"registrytoken,omitempty"`
}

type c19Doc struct {
	Auths       map[string]c19Entry `json:"auths,omitempty"`
	CredsStore  string              `json:"credsStore,omitempty"`
	CredHelpers map[string]string   `json:"credHelpers,omitempty"`
}

type c19Result struct {
	errored bool
	errText string
	entry   ociauth.ConfigEntry
}

func (r c19Result) String() string {
	if r.errored {
		return "error"
	}
	return fmt.Sprintf("{user %q pass %q refresh %q access %q}", r.entry.Username, r.entry.Password, r.entry.RefreshToken, r.entry.AccessToken)
}

func c19(env *core.Env) {
	c := env.C
	hosts := []string{"h1.example", "h2.example:5000", "h3"}
	doc := c19Doc{Auths: map[string]c19Entry{}}
	var shape []string
	authBad := false
	mkEntry := func(tagstr string) c19Entry {
		var e c19Entry
		switch c.Int("entry.kind", 10) {
		case 9:
			// an entry without any credentials
			shape = append(shape, "empty")
		case 7:
			// NUL bytes that are part of the password (only trailing ones are padding)
			e.Auth = base64.StdEncoding.EncodeToString([]byte("nuluser-" + tagstr + ":\x00lead\x00mid-" + tagstr))
			shape = append(shape, "auth-nul-inside")
		case 8:
			// user names and passwords with spaces, colons after the first, non-ASCII
			e.Auth = base64.StdEncoding.EncodeToString([]byte("us er-" + tagstr + ": p:w \u00e9-" + tagstr + " "))
			shape = append(shape, "auth-odd-chars")
		case 0:
			e.Username, e.Password = "user-"+tagstr, "pass-"+tagstr
			shape = append(shape, "userpass")
		case 1:
			e.Auth = base64.StdEncoding.EncodeToString([]byte("authuser-" + tagstr + ":authpass:with:colons-" + tagstr))
			shape = append(shape, "auth")
		case 2:
			e.Auth = base64.StdEncoding.EncodeToString([]byte("nul-" + tagstr + ":padded-" + tagstr + "\x00\x00"))
			shape = append(shape, "auth-nul")
		case 3:
			e.Auth = base64.StdEncoding.EncodeToString([]byte("nocolon" + tagstr))
			authBad = true
			shape = append(shape, "auth-nocolon")
		case 4:
			e.Auth = "!!!not base64!!!"
			authBad = true
			shape = append(shape, "auth-garbage")
		case 5:
			e.IdentityToken = "idtoken-" + tagstr
			if c.Bool("entry.idtoken+user", 1, 3) {
				e.Username, e.Password = "idu-"+tagstr, "idp-"+tagstr
			}
			shape = append(shape, "identitytoken")
		case 6:
			e.RegistryToken = "regtoken-" + tagstr
			if c.Bool("entry.both", 1, 3) {
				e.Username, e.Password = "u-"+tagstr, "p-"+tagstr
			}
			shape = append(shape, "registrytoken")
		}
		if e.Auth != "" && c.Bool("entry.auth+userpass", 1, 4) {
			e.Username, e.Password = "ignored-"+tagstr, "ignored"
		}
		return e
	}
	for hi, h := range hosts {
		if c.Bool("key.explicit", 1, 2) {
			doc.Auths[h] = mkEntry(fmt.Sprintf("explicit%d", hi))
			shape = append(shape, "explicit")
		}
		nurl := c.Weighted("key.nurl", []int{5, 4, 2})
		forms := []string{"https://" + h + "/v1/", "http://" + h, "https://" + h + "/some/path", "http://" + h + "/v2/"}
		perm := c.Perm("key.urlform", len(forms))
		for k := 0; k < nurl; k++ {
			doc.Auths[forms[perm[k]]] = mkEntry(fmt.Sprintf("url%d.%d", hi, k))
			shape = append(shape, "url")
		}
	}
	if c.Bool("key.pathkey", 1, 5) {
		doc.Auths["h1.example/not-a-url"] = mkEntry("pathkey")
	}
	if c.Bool("store", 1, 3) {
		doc.CredsStore = "store"
		shape = append(shape, "credsStore")
	}
	if c.Bool("helpers", 1, 3) {
		doc.CredHelpers = map[string]string{}
		for _, h := range hosts {
			if c.Bool("helper.for", 1, 2) {
				doc.CredHelpers[h] = "helper-" + h[:2]
				if c.Bool("helper.same-as-store", 1, 4) {
					// the per-host helper happens to be the program that is also the default store
					doc.CredHelpers[h] = "store"
				}
				shape = append(shape, "credHelper")
			}
		}
	}
	// helper behaviours: a pure function of (helper, host)
	behaviour := map[string]int{}
	for _, h := range hosts {
		for _, helper := range []string{"store", "helper-" + h[:2]} {
			behaviour[helper+"|"+h] = c.Int("helper.behaviour", 5)
		}
	}
	otherErr := errors.New("helper exploded")
	runner := func(helper, host string) (ociauth.ConfigEntry, error) {
		switch behaviour[helper+"|"+host] {
		case 0:
			return ociauth.ConfigEntry{Username: "hu-" + helper + "-" + host, Password: "hp-" + helper}, nil
		case 1:
			return ociauth.ConfigEntry{RefreshToken: "hrefresh-" + helper + "-" + host}, nil
		case 2:
			return ociauth.ConfigEntry{}, nil // not found in the keychain
		case 3:
			return ociauth.ConfigEntry{}, fmt.Errorf("%w: no such binary docker-credential-%s", ociauth.ErrHelperNotFound, helper)
		}
		return ociauth.ConfigEntry{}, otherErr
	}
	data, _ := json.Marshal(doc)
	dir, err := os.MkdirTemp("", "verif-c19-")
	if err != nil {
		core.Harnessf("%v", err)
	}
	env.Cleanup(func() { os.RemoveAll(dir) })
	if err := os.WriteFile(filepath.Join(dir, "config.json"), data, 0o600); err != nil {
		core.Harnessf("%v", err)
	}
	env.Sample("config.json: %s", data)

	// ---- reference precedence function (from the property statement) ----
	ref := func(host string) (c19Result, bool) { // ok=false: not predicted (grey zone)
		if helper, ok := doc.CredHelpers[host]; ok {
			e, err := runner(helper, host)
			return c19Result{errored: err != nil, entry: e}, true
		}
		if doc.CredsStore != "" {
			e, err := runner(doc.CredsStore, host)
			if err == nil || !errors.Is(err, ociauth.ErrHelperNotFound) {
				return c19Result{errored: err != nil, entry: e}, true
			}
			// a missing default helper falls back to the table
		}
		var ent c19Entry
		if e, ok := doc.Auths[host]; ok {
			ent = e // an explicit host entry wins over entries derived from URL-form keys
		} else {
			var derived []c19Entry
			for k, e := range doc.Auths {
				if !strings.Contains(k, "//") {
					continue
				}
				s := strings.TrimPrefix(strings.TrimPrefix(k, "https://"), "http://")
				if h, _, _ := strings.Cut(s, "/"); h == host {
					derived = append(derived, e)
				}
			}
			if len(derived) > 1 {
				return c19Result{errored: true}, true // several URL-form keys for one host: refuse to pick
			}
			if len(derived) == 1 {
				ent = derived[0]
			}
		}
		if ent.Auth != "" {
			raw, _ := base64.StdEncoding.DecodeString(ent.Auth)
			u, p, _ := strings.Cut(string(raw), ":")
			ent.Username, ent.Password = u, strings.TrimRight(p, "\x00")
		}
		if ent.IdentityToken != "" && ent.Username != "" {
			return c19Result{}, false
		}
		return c19Result{entry: ociauth.ConfigEntry{RefreshToken: ent.IdentityToken, AccessToken: ent.RegistryToken, Username: ent.Username, Password: ent.Password}}, true
	}

	queries := append([]string{}, hosts...)
	queries = append(queries, "unknown.example", "h1.example/not-a-url")
	// every key written in the table is an entry of its own: asked for by that very
	// string (URL-form keys included) a lookup gives what is written under it
	var literal []string
	for k := range doc.Auths {
		if strings.Contains(k, "//") {
			literal = append(literal, k)
		}
	}
	sort.Strings(literal)
	queries = append(queries, literal...)
	var firstLoadErr *bool
	firstLoadErrText := ""
	var firstResults map[string]c19Result
	for round := 0; round < 8; round++ {
		cf, err := ociauth.LoadWithEnv(runner, []string{"DOCKER_CONFIG=" + dir})
		loadErr := err != nil
		if firstLoadErr == nil {
			firstLoadErr = &loadErr
			if loadErr != authBad {
				env.Failf("C19/load/accept-reject", "LoadWithEnv error=%v (%v) but the document %s a malformed auth field", loadErr, err, map[bool]string{true: "contains", false: "does not contain"}[authBad])
			}
		} else if *firstLoadErr != loadErr {
			env.Failf("C19/load/order-dependent", "decoding the same document succeeded under one map iteration order and failed under another (%v)", err)
		}
		if loadErr {
			// which entry a rejected document is rejected for is part of the result too
			if firstLoadErrText == "" {
				firstLoadErrText = err.Error()
			} else if err.Error() != firstLoadErrText {
				env.Failf("C19/load/error-order-dependent", "decoding the same document fails with %q under one map iteration order and with %q under another (config %s)", firstLoadErrText, err.Error(), data)
			}
		}
		if loadErr {
			continue
		}
		order := c.Perm("lookup.order", len(queries))
		results := map[string]c19Result{}
		for _, qi := range order {
			h := queries[qi]
			e, err := cf.EntryForRegistry(h)
			results[h] = c19Result{errored: err != nil, entry: e}
			if err != nil {
				results[h] = c19Result{errored: true, errText: err.Error()}
			}
			if c.Bool("lookup.repeat", 1, 4) {
				e2, err2 := cf.EntryForRegistry(h)
				if (err2 != nil) != (err != nil) || e2 != e {
					env.Failf("C19/lookup/not-repeatable", "two lookups of %q on the same ConfigFile differ: %v/%v then %v/%v", h, e, err, e2, err2)
				}
			}
		}
		if firstResults == nil {
			firstResults = results
			for _, h := range queries {
				want, predicted := ref(h)
				got := results[h]
				if !predicted {
					continue
				}
				if want.errored != got.errored || (!want.errored && want.entry != got.entry) {
					env.Failf("C19/lookup/precedence", "lookup of %q gives %s, the precedence rules give %s (config %s)", h, got, want, data)
				}
			}
		} else {
			for _, h := range queries {
				a, b := firstResults[h], results[h]
				if a.errored != b.errored || (!a.errored && a.entry != b.entry) {
					env.Failf("C19/lookup/order-dependent", "lookup of %q gives %s under one map iteration / lookup order and %s under another (config %s)", h, a, b, data)
				}
				if a.errored && a.errText != b.errText {
					// which error a failing lookup reports is part of its result
					env.Failf("C19/lookup/error-order-dependent", "lookup of %q fails with %q under one map iteration / lookup order and with %q under another (config %s)", h, a.errText, b.errText, data)
				}
			}
		}
	}
	sort.Strings(shape)
	outcome := "loaded"
	if firstLoadErr != nil && *firstLoadErr {
		outcome = "rejected"
	}
	beh := make([]string, 0)
	for k, v := range behaviour {
		beh = append(beh, fmt.Sprintf("%s=%d", k, v))
	}
	sort.Strings(beh)
	env.Op(fmt.Sprintf("%v/%v/%s", shape, beh, outcome))
}
