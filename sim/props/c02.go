package props

import (
	"context"

	"verifsim/core"
	"verifsim/reg"
)

// C02: the in-memory registry follows the reference registry semantics.
func init() {
	core.Components["C02"] = [2][]string{{"ocimem (both configurations)", "ociregistry errors/iter", "ociref validators"}, {"none: the registry is called directly; content readers are fault-injecting io.Readers"}}
	core.Rules["C02"] = "one evaluation = one generated history of 10-60 Interface/BlobWriter calls on a fresh *ocimem.Registry, every return value checked against the reference model (refreg) and the model state compared after every step; distinct = distinct sequence of (operation kind, outcome code, fault) tokens; non-trivial = at least one operation issued"
	core.Assumptions["C02"] = []string{
		"the reference model is transcribed from the property statement and interface.go; its deliberate relaxations are listed in DESIGN.md 4.7",
		"sampling, not proof",
	}
	register(&core.Scenario{Name: "c02-history", Property: "C02", Weight: 3, Run: func(env *core.Env) { c02(env, false) }})
	register(&core.Scenario{Name: "c02-history-large", Property: "C02", Weight: 1, Run: func(env *core.Env) { c02(env, true) }})
}

func c02(env *core.Env, large bool) {
	c := env.C
	immutable := c.Bool("immutable", 1, 2)
	mem := newMem(immutable)
	m := reg.NewModel(immutable)
	cfg := reg.GenConfig{
		Repos:           pickSome(c, "repos", repoNames, 1, 3),
		BadRepos:        badRepoNames,
		Tags:            pickSome(c, "tags", tagNames, 1, 3),
		MaxBlob:         200,
		Weights:         reg.DefaultWeights(),
		BadPush:         true,
		MalformedDigest: true,
		Recommit:        true,
		ContentFault:    true,
		EmptyBlobMT:     true,
		Motifs:          true,
		AltAlgo:         true,
		Stops:           true,
		Uploads:         true,
		SmallReads:      true,
	}
	n := c.Range("nops", 10, 60)
	if env.Tier == "thorough" {
		n = c.Range("nops", 10, 120)
	}
	if large {
		cfg.Repos = pickSome(c, "repos", repoNames, 4, 8)
		cfg.Tags = tagNames
		cfg.MaxBlob = 70000
		n = c.Range("nops", 40, 150)
	}
	env.Sample("config: immutableTags=%v repos=%v tags=%v ops=%d", immutable, cfg.Repos, cfg.Tags, n)
	g := reg.NewGen(c, m, cfg)
	runHistory(env, context.Background(), mem, m, g, n, "C02")
}
