package props

import (
	"encoding/json"
	"errors"
	"fmt"
	"os"
	"path/filepath"

	"cuelabs.dev/go/oci/ociregistry/ociauth"

	"verifsim/core"
)

// c19-overlapping-lookups: "results do not depend on the order of lookups" taken to
// where a program with several goroutines takes it: two or three tasks look hosts up on
// one ConfigFile at the same time (a helper takes a while: the runner is a scheduling
// point, so lookups of one host overlap), and every lookup gives what the precedence
// rules give for the document and the helpers' answers - the same as when the lookups
// are made one after the other.
//
// Nondeterminism under control: which task proceeds at every helper call and at every
// lock the library takes (seeded scheduler).
func init() {
	c := core.Components["C19"]
	c[0] = append(c[0], "ociauth.ConfigFile used from several tasks at once (helper calls are scheduling points)")
	core.Components["C19"] = c
	register(&core.Scenario{Name: "c19-overlapping-lookups", Property: "C19", Weight: 3, Bubble: true, Run: c19overlap})
}

func c19overlap(env *core.Env) {
	c := env.C
	sched := env.Sched
	hosts := []string{"h1.example", "h2.example:5000", "h3"}
	doc := c19Doc{Auths: map[string]c19Entry{}, CredHelpers: map[string]string{}}
	doc.CredsStore = []string{"", "store", "store"}[c.Int("store", 3)]
	for _, h := range hosts {
		if c.Bool("table.entry", 2, 3) {
			doc.Auths[h] = c19Entry{Username: "table-user-" + h, Password: "table-pass-" + h}
		}
		if c.Bool("perhost", 1, 3) {
			doc.CredHelpers[h] = "own"
		}
	}
	// what a helper answers: a pure function of (helper, host)
	behaviour := map[string]int{}
	for _, h := range hosts {
		for _, helper := range []string{"store", "own"} {
			behaviour[helper+"|"+h] = c.Weighted("helper.behaviour", []int{3, 1, 2, 3, 3})
		}
	}
	otherErr := errors.New("the keychain is locked")
	answer := func(helper, host string) (ociauth.ConfigEntry, error) {
		switch behaviour[helper+"|"+host] {
		case 0:
			return ociauth.ConfigEntry{Username: "hu-" + helper + "-" + host, Password: "hp-" + helper}, nil
		case 1:
			return ociauth.ConfigEntry{RefreshToken: "hrefresh-" + helper + "-" + host}, nil
		case 2:
			return ociauth.ConfigEntry{}, nil // not found in the keychain
		case 3:
			return ociauth.ConfigEntry{}, fmt.Errorf("%w: no such binary docker-credential-%s", ociauth.ErrHelperNotFound, helper)
		}
		return ociauth.ConfigEntry{}, otherErr
	}
	ncalls := 0
	runner := func(helper, host string) (ociauth.ConfigEntry, error) {
		ncalls++
		// a helper is a program: it takes a while, and other lookups go on meanwhile
		for i, n := 0, 1+len(host)%2; i < n; i++ {
			sched.Yield()
		}
		return answer(helper, host)
	}
	ref := func(host string) c19Result {
		if helper, ok := doc.CredHelpers[host]; ok {
			e, err := answer(helper, host)
			return c19Result{errored: err != nil, entry: e}
		}
		if doc.CredsStore != "" {
			e, err := answer(doc.CredsStore, host)
			if err == nil || !errors.Is(err, ociauth.ErrHelperNotFound) {
				return c19Result{errored: err != nil, entry: e}
			}
		}
		e := doc.Auths[host]
		return c19Result{entry: ociauth.ConfigEntry{Username: e.Username, Password: e.Password}}
	}
	data, _ := json.Marshal(doc)
	dir, err := os.MkdirTemp("", "verif-c19o-")
	if err != nil {
		core.Harnessf("%v", err)
	}
	env.Cleanup(func() { os.RemoveAll(dir) })
	if err := os.WriteFile(filepath.Join(dir, "config.json"), data, 0o600); err != nil {
		core.Harnessf("%v", err)
	}
	cf, err := ociauth.LoadWithEnv(runner, []string{"DOCKER_CONFIG=" + dir})
	if err != nil {
		env.Failf("C19/overlap/load", "LoadWithEnv failed for a well-formed document: %v (config %s)", err, data)
	}
	ntasks := c.Range("tasks", 2, 3)
	type look struct {
		host string
		res  c19Result
	}
	plans := make([][]*look, ntasks)
	// lookups of one host are made to meet: every task starts with the same host one
	// time in two
	first := hosts[c.Int("first", len(hosts))]
	for t := range plans {
		for i, n := 0, c.Range("lookups", 1, 3); i < n; i++ {
			h := hosts[c.Int("host", len(hosts))]
			if i == 0 && c.Bool("same-first", 1, 2) {
				h = first
			}
			plans[t] = append(plans[t], &look{host: h})
		}
	}
	env.Sample("overlapping lookups: config %s; helper answers %v; tasks %d", data, behaviour, ntasks)
	for t := range plans {
		t := t
		sched.Spawn(fmt.Sprintf("lookup%d", t), func() {
			for _, l := range plans[t] {
				e, err := cf.EntryForRegistry(l.host)
				l.res = c19Result{entry: e}
				if err != nil {
					l.res = c19Result{errored: true, errText: err.Error()}
				}
				sched.Yield()
			}
		})
	}
	env.Finally(func() {
		for t, p := range plans {
			for i, l := range p {
				want := ref(l.host)
				env.Op(fmt.Sprintf("overlap/%s/%v", l.host, l.res.errored))
				env.Logf("task %d lookup %d of %s -> %s %s", t, i, l.host, l.res, l.res.errText)
				if l.res.errored != want.errored || (!want.errored && l.res.entry != want.entry) {
					env.Failf("C19/overlap/differs-from-sequential", "task %d's lookup of %q, made while other lookups were under way, gives %s %q; made on its own it gives %s (config %s, helper answers %v)", t, l.host, l.res, l.res.errText, want, data, behaviour)
				}
			}
		}
		if ncalls > 0 {
			env.Probe("c19:helper-called-while-lookups-overlap")
		}
	})
}
