package props

import (
	"bytes"
	"context"
	"errors"
	"fmt"
	"slices"
	"sort"

	"cuelabs.dev/go/oci/ociregistry"
	"cuelabs.dev/go/oci/ociregistry/ocimem"
	"cuelabs.dev/go/oci/ociregistry/ociunify"

	"verifsim/core"
	"verifsim/reg"
)

// C15: the unified registry is the union view and replicates every write.
// Runs inside the deterministic scheduler: ociunify's goroutines, channels, pipes
// and selects are simulator tasks, so which member answers first is a seeded choice.
func init() {
	core.Components["C15"] = [2][]string{
		{"ociunify (both read policies, writers, listers, deleters)", "two ocimem members", "its goroutines / channels / io.Pipe (rewritten to simulator hooks; pipe blocking detected by bubble quiescence)"},
		{"goroutine scheduling and select choice: decided by the simulator (testing/synctest bubble)", "member write faults: reg.Wrap"}}
	core.Rules["C15"] = "one evaluation = either (reads) a generated pair of member states (each item in member 0, member 1, both or neither; conflicting tags; repositories known to one member) queried through the unifier under both read policies, or (writes) a generated write history through the unifier over two initially equal members, optionally with one member failing a write; under one seeded schedule; distinct = distinct sequence of (operation, presence class, outcome) tokens x schedule; non-trivial = at least one call through the unifier"
	register(&core.Scenario{Name: "c15-union-reads", Property: "C15", Weight: 3, Bubble: true, LeakIsViolation: true, Run: c15reads})
	register(&core.Scenario{Name: "c15-writes", Property: "C15", Weight: 3, Bubble: true, LeakIsViolation: true, Run: func(env *core.Env) { c15writes(env, false) }})
	register(&core.Scenario{Name: "c15-writes-member-fault", Property: "C15", Weight: 2, Bubble: true, LeakIsViolation: true, Run: func(env *core.Env) { c15writes(env, true) }})
}

func c15reads(env *core.Env) {
	c := env.C
	ctx := context.Background()
	mems := [2]*ocimem.Registry{ocimem.New(), ocimem.New()}
	repos := pickSome(c, "repos", []string{"foo", "a/b", "tags/list"}, 1, 2)
	type item struct {
		repo    string
		data    []byte
		mt      string // "" for blobs
		dig     ociregistry.Digest
		in      [2]bool
		subject ociregistry.Digest
	}
	var items []*item
	presence := func() [2]bool {
		return [][2]bool{{true, false}, {false, true}, {true, true}, {false, false}}[c.Int("presence", 4)]
	}
	for _, r := range repos {
		for i, n := 0, c.Range("nblobs", 1, 3); i < n; i++ {
			data := []byte(fmt.Sprintf("blob-%s-%d-%d", r, i, c.Int("uniq", 1000)))
			it := &item{repo: r, data: data, dig: reg.Sha256(data), in: presence()}
			items = append(items, it)
		}
	}
	subj := reg.Sha256([]byte("the-subject"))
	for _, r := range repos {
		for i, n := 0, c.Range("nmans", 1, 3); i < n; i++ {
			var data []byte
			mt := "application/x-verif.opaque"
			var sub ociregistry.Digest
			if c.Bool("referrer", 1, 3) {
				mt = reg.MTImageIndex
				sub = subj
				data = []byte(fmt.Sprintf(`{"schemaVersion":2,"mediaType":%q,"manifests":[],"subject":{"mediaType":%q,"digest":%q,"size":3},"annotations":{"i":"%s-%d"}}`, mt, reg.MTImageManifest, subj, r, i))
			} else {
				data = []byte(fmt.Sprintf(`{"m":"%s-%d-%d"}`, r, i, c.Int("uniq", 1000)))
			}
			items = append(items, &item{repo: r, data: data, mt: mt, dig: reg.Sha256(data), in: presence(), subject: sub})
		}
	}
	for _, it := range items {
		for m := 0; m < 2; m++ {
			if !it.in[m] {
				continue
			}
			var err error
			if it.mt == "" {
				_, err = mems[m].PushBlob(ctx, it.repo, ociregistry.Descriptor{Digest: it.dig, Size: int64(len(it.data)), MediaType: "application/octet-stream"}, bytes.NewReader(it.data))
			} else {
				_, err = mems[m].PushManifest(ctx, it.repo, "", it.data, it.mt)
			}
			if err != nil {
				core.Harnessf("populate: %v", err)
			}
		}
	}
	// tags: per member a manifest of that member (possibly different ones: conflict)
	type tagState struct {
		repo, tag string
		dig       [2]ociregistry.Digest // "" = absent
		// dangling: the member has the tag, bound to a manifest it no longer holds
		// (pushed under the tag, then deleted by digest)
		dangling [2]bool
	}
	var tags []*tagState
	for _, r := range repos {
		for _, t := range []string{"t1", "t2"} {
			ts := &tagState{repo: r, tag: t}
			for m := 0; m < 2; m++ {
				var cands []*item
				for _, it := range items {
					if it.repo == r && it.mt != "" && it.in[m] {
						cands = append(cands, it)
					}
				}
				if c.Bool("tag.dangling", 1, 8) {
					data := []byte(fmt.Sprintf(`{"gone":"%s-%s-%d"}`, r, t, m))
					d := reg.Sha256(data)
					if _, err := mems[m].PushManifest(ctx, r, t, data, "application/x-verif.opaque"); err != nil {
						core.Harnessf("populate dangling tag: %v", err)
					}
					if err := mems[m].DeleteManifest(ctx, r, d); err != nil {
						core.Harnessf("populate dangling tag: %v", err)
					}
					ts.dig[m], ts.dangling[m] = d, true
					continue
				}
				if len(cands) == 0 || !c.Bool("tagged", 2, 3) {
					continue
				}
				it := cands[c.Int("tag.target", len(cands))]
				if _, err := mems[m].PushManifest(ctx, r, t, it.data, it.mt); err != nil {
					core.Harnessf("populate tag: %v", err)
				}
				ts.dig[m] = it.dig
			}
			tags = append(tags, ts)
		}
	}
	hasContent := func(m int, repo string) bool {
		for _, ts := range tags {
			if ts.repo == repo && ts.dig[m] != "" {
				return true
			}
		}
		for _, it := range items {
			if it.repo == repo && it.in[m] {
				return true
			}
		}
		return false
	}
	env.Sample("repos=%v items=%d (presence per member varies) tags=%d", repos, len(items), len(tags))
	// (members need not list referrers in any particular order - the interface
	// promises one for repositories and tags only; the union is sorted all the same)
	var members [2]ociregistry.Interface = [2]ociregistry.Interface{mems[0], mems[1]}
	for i := range members {
		if how := c.Int("member.referrers-order", 4); how > 0 {
			members[i] = &referrersReordered{Interface: mems[i], how: how}
		}
	}
	unis := [2]ociregistry.Interface{
		ociunify.New(members[0], members[1], &ociunify.Options{ReadPolicy: ociunify.ReadSequential}),
		ociunify.New(members[0], members[1], &ociunify.Options{ReadPolicy: ociunify.ReadConcurrent}),
	}
	polName := [2]string{"sequential", "concurrent"}
	nq := c.Range("nqueries", 4, 14)
	for q := 0; q < nq; q++ {
		var results [2]*reg.Res
		var op *reg.Op
		var expectOK bool
		var expectData []byte
		var expectItems []string
		class := ""
		switch c.Weighted("query", []int{5, 3, 4, 3, 2, 2}) {
		case 0, 1: // digest-addressed content
			it := items[c.Int("q.item", len(items))]
			op = &reg.Op{Repo: it.repo, Digest: it.dig, StopAfter: -1, ContentFault: -1}
			if it.mt == "" {
				op.Kind = []reg.Kind{reg.GetBlob, reg.ResolveBlob, reg.GetBlobRange}[c.Int("q.blobop", 3)]
				op.O0, op.O1 = 1, 4
			} else {
				op.Kind = []reg.Kind{reg.GetManifest, reg.ResolveManifest}[c.Int("q.manop", 2)]
			}
			expectOK = it.in[0] || it.in[1]
			expectData = it.data
			if op.Kind == reg.GetBlobRange {
				expectData = it.data[1:4]
			}
			class = fmt.Sprintf("%s/in=%v", op.Kind, it.in)
		case 2: // tags
			ts := tags[c.Int("q.tag", len(tags))]
			op = &reg.Op{Kind: []reg.Kind{reg.GetTag, reg.ResolveTag}[c.Int("q.tagop", 2)], Repo: ts.repo, Tag: ts.tag, StopAfter: -1, ContentFault: -1}
			switch {
			case ts.dig[0] != "" && ts.dig[1] != "":
				expectOK = ts.dig[0] == ts.dig[1]
				class = fmt.Sprintf("%s/both/agree=%v", op.Kind, expectOK)
			case ts.dig[0] != "" || ts.dig[1] != "":
				expectOK = true
				class = op.Kind.String() + "/one"
				if ts.dangling[0] || ts.dangling[1] {
					// the one member that has the tag no longer has the manifest: the tag
					// resolves, its content cannot be fetched
					expectOK = op.Kind == reg.ResolveTag
					class += "/dangling"
				}
			default:
				class = op.Kind.String() + "/none"
			}
			if expectOK {
				d := ts.dig[0]
				if d == "" {
					d = ts.dig[1]
				}
				for _, it := range items {
					if it.repo == ts.repo && it.dig == d {
						expectData = it.data
					}
				}
			}
		case 3: // repositories
			op = &reg.Op{Kind: reg.Repositories, StopAfter: -1, ContentFault: -1}
			expectOK = true
			for _, r := range repos {
				if hasContent(0, r) || hasContent(1, r) {
					expectItems = append(expectItems, r)
				}
			}
			class = "Repositories"
		case 4: // tags listing
			r := repos[c.Int("q.repo", len(repos))]
			op = &reg.Op{Kind: reg.Tags, Repo: r, StopAfter: -1, ContentFault: -1}
			expectOK = hasContent(0, r) || hasContent(1, r)
			for _, ts := range tags {
				if ts.repo == r && (ts.dig[0] != "" || ts.dig[1] != "") {
					expectItems = append(expectItems, ts.tag)
				}
			}
			class = fmt.Sprintf("Tags/known=%v,%v", hasContent(0, r), hasContent(1, r))
		case 5: // referrers
			r := repos[c.Int("q.repo", len(repos))]
			op = &reg.Op{Kind: reg.Referrers, Repo: r, Digest: subj, StopAfter: -1, ContentFault: -1}
			expectOK = hasContent(0, r) || hasContent(1, r)
			for _, it := range items {
				if it.repo == r && it.subject == subj && (it.in[0] || it.in[1]) {
					expectItems = append(expectItems, string(it.dig))
				}
			}
			class = "Referrers"
		}
		sort.Strings(expectItems)
		expectItems = slices.Compact(expectItems)
		for p := 0; p < 2; p++ {
			results[p] = reg.Exec(ctx, unis[p], op, nil)
		}
		env.Op(class + fmt.Sprintf("/%v", results[0].Err == nil && results[0].ListErr == nil))
		env.Logf("%s [%s] expectOK=%v -> seq: %s | conc: %s", op, class, expectOK, results[0], results[1])
		env.Sample("%s [%s] -> sequential: %s | concurrent: %s", op, class, results[0], results[1])
		for p := 0; p < 2; p++ {
			res := results[p]
			fail := func(k, format string, a ...any) {
				env.Failf("C15/reads/"+op.Kind.String()+"/"+k, "%s through the unifier (%s policy) [%s]: %s\n  result: %s", op, polName[p], class, fmt.Sprintf(format, a...), res)
			}
			failed := res.Err != nil || res.ListErr != nil
			if expectOK && failed {
				if op.Kind == reg.Tags || op.Kind == reg.Referrers || op.Kind == reg.Repositories {
					fail("union-missing", "the listing failed although a member knows the repository")
				}
				fail("union-missing", "the call failed although a member holds the content")
			}
			if !expectOK && !failed {
				if op.Kind == reg.GetTag || op.Kind == reg.ResolveTag {
					fail("conflict-silently-resolved", "the members disagree on the tag (or neither has it) but the call succeeded")
				}
				if op.Kind != reg.Tags && op.Kind != reg.Referrers {
					fail("phantom", "the call succeeded although no member holds the content")
				}
			}
			if failed {
				continue
			}
			if expectData != nil && (op.Kind == reg.GetBlob || op.Kind == reg.GetManifest || op.Kind == reg.GetTag || op.Kind == reg.GetBlobRange) {
				if !bytes.Equal(res.Data, expectData) || res.ReadErr != nil {
					fail("wrong-bytes", "served %d bytes (read error %v), want the %d bytes the member holds", len(res.Data), res.ReadErr, len(expectData))
				}
			}
			if op.Kind == reg.Repositories || op.Kind == reg.Tags {
				if !slices.Equal(res.Items, expectItems) && !(len(res.Items) == 0 && len(expectItems) == 0) {
					fail("listing-not-union", "listing %v, want the sorted duplicate-free union %v", res.Items, expectItems)
				}
			}
			if op.Kind == reg.Referrers {
				var got []string
				for _, d := range res.Descs {
					got = append(got, string(d.Digest))
				}
				if !slices.Equal(got, expectItems) && !(len(got) == 0 && len(expectItems) == 0) {
					fail("listing-not-union", "referrers %v, want the sorted duplicate-free union %v", got, expectItems)
				}
			}
		}
		// the two policies agree
		a, b := results[0], results[1]
		if (a.Err == nil) != (b.Err == nil) || (a.ListErr == nil) != (b.ListErr == nil) || !bytes.Equal(a.Data, b.Data) || !slices.Equal(a.Items, b.Items) || a.Desc.Digest != b.Desc.Digest {
			env.Failf("C15/reads/"+op.Kind.String()+"/policies-disagree", "%s [%s]: sequential policy: %s; concurrent policy: %s", op, class, a, b)
		}
	}
	// A listing of one member breaks off midway: the union is not known, so the
	// unified listing must end with an error, never look like a shorter union.
	if c.Bool("member-listing-fault", 1, 2) {
		bad := c.Int("fault.member", 2)
		at := c.Range("fault.after", 0, 3)
		what := []reg.Kind{reg.Repositories, reg.Tags, reg.Referrers}[c.Int("fault.listing", 3)]
		fired := false
		vanish := c.Bool("fault.name-unknown", 1, 3)
		plan := &reg.FaultPlan{IterFailAfter: func(call *reg.Call) (int, error) {
			if call.Method != what.String() {
				return -1, nil
			}
			if vanish {
				// (the repository went away upstream between two of the member's pages)
				return at, fmt.Errorf("page %d: %w", at, ociregistry.ErrNameUnknown)
			}
			return at, ociregistry.NewError("injected listing failure", "VERIF_INJECTED", nil)
		}}
		var ms [2]ociregistry.Interface
		for m := 0; m < 2; m++ {
			if m == bad {
				ms[m] = reg.Wrap(mems[m], reg.NewTracker(), plan)
			} else {
				ms[m] = mems[m]
			}
		}
		r := repos[c.Int("fault.repo", len(repos))]
		op := &reg.Op{Kind: what, Repo: r, Digest: subj, StopAfter: -1, ContentFault: -1}
		for p, pol := range []ociunify.ReadPolicy{ociunify.ReadSequential, ociunify.ReadConcurrent} {
			plan.IterFaultsDelivered = 0
			u := ociunify.New(ms[0], ms[1], &ociunify.Options{ReadPolicy: pol})
			res := reg.Exec(ctx, u, op, nil)
			fired = plan.IterFaultsDelivered > 0 && !(vanish && plan.IterItemsBeforeFault == 0) // (name-unknown before anything was delivered: "not here", rightly forgiven)
			if fired {
				env.Fault("member-listing-fails")
			}
			env.Op(fmt.Sprintf("%s/member%d-listing-fails@%d/%v", what, bad, at, res.ListErr != nil))
			env.Logf("%s with member %d's listing failing after %d item(s) (%s policy) -> %s", op, bad, at, polName[p], res)
			if fired && res.ListErr == nil && res.Err == nil {
				env.Failf("C15/reads/"+what.String()+"/member-listing-error-swallowed", "%s through the unifier (%s policy): member %d's listing failed after %d item(s) but the unified listing ended without error: %s", op, polName[p], bad, at, res)
			}
			if res.ExtraCalls > 0 {
				env.Failf("C15/reads/"+what.String()+"/consumer-called-after-end", "%s through the unifier (%s policy): the consumer was called %d more time(s) after the error", op, polName[p], res.ExtraCalls)
			}
		}
	}
}

func c15writes(env *core.Env, faulty bool) {
	c := env.C
	ctx := context.Background()
	immutable := c.Bool("immutable", 1, 4)
	mems := [2]*ocimem.Registry{ocimem.NewWithConfig(&ocimem.Config{ImmutableTags: immutable}), ocimem.NewWithConfig(&ocimem.Config{ImmutableTags: immutable})}
	trackers := [2]*reg.Tracker{reg.NewTracker(), reg.NewTracker()}
	failed := false // a member write has been made to fail: the members may differ from now on
	pendingBad := false
	closeFailed := false
	badMember := 1
	badHandle := map[int]bool{}
	var plan *reg.FaultPlan
	if faulty {
		badMember = c.Int("fault.member", 2)
		rate := c.Range("fault.rate", 3, 10)
		plan = &reg.FaultPlan{
			CallErr: func(call *reg.Call) error {
				switch call.Method {
				case "PushBlob", "PushManifest", "MountBlob", "DeleteBlob", "DeleteManifest", "DeleteTag", "PushBlobChunked", "PushBlobChunkedResume":
					if c.Bool("fault?", 1, rate) {
						failed = true
						env.Fault("member-write-fails:" + call.Method)
						return errors.New("injected member failure")
					}
				}
				return nil
			},
			WriterCloseFails: func() bool {
				if c.Bool("closefault?", 1, rate) {
					failed, closeFailed = true, true
					env.Fault("member-writer-close-fails")
					return true
				}
				return false
			},
			WriterFaults: func(call *reg.Call) (bool, bool) {
				if c.Bool("writerfault?", 1, rate) {
					// member 1 hands out a writer whose Write and/or Commit will fail; the
					// failure happens (and counts) when the writer is used
					pendingBad = true
					env.Fault("member-writer-will-fail")
					return c.Bool("w", 1, 2), true
				}
				return false, false
			},
		}
	}
	plans := [2]*reg.FaultPlan{}
	plans[badMember] = plan
	// (the members' own upload ids are noted as the members hand them out, so that the
	// harness can look at a session in each member without taking the unifier's id apart)
	spies := [2]*uploadSpy{{Interface: mems[0]}, {Interface: mems[1]}}
	memberIDs := map[string][2]string{} // unifier's upload id -> the members' ids
	m0 := reg.Wrap(spies[0], trackers[0], plans[0])
	m1 := reg.Wrap(spies[1], trackers[1], plans[1])
	pol := ociunify.ReadSequential
	if c.Bool("concurrent", 1, 2) {
		pol = ociunify.ReadConcurrent
	}
	un := ociunify.New(m0, m1, &ociunify.Options{ReadPolicy: pol})
	u := un
	m := reg.NewModel(immutable)
	m.StrictCodes = false
	m.ReferrersOrdered = true // "listings are the sorted duplicate-free union"
	cfg := reg.GenConfig{Repos: pickSome(c, "repos", repoNames, 1, 2), Tags: pickSome(c, "tags", tagNames, 1, 2), MaxBlob: 60, Weights: reg.DefaultWeights(), Uploads: true, BadPush: true, HTTPSafe: true}
	w := &cfg.Weights
	w[reg.PushBlob], w[reg.PushManifest], w[reg.MountBlob], w[reg.DeleteBlob], w[reg.DeleteManifest], w[reg.DeleteTag] = 14, 14, 6, 5, 5, 5
	g := reg.NewGen(c, m, cfg)
	h := reg.NewHandles()
	n := c.Range("nops", 6, 30)
	if env.Tier == "thorough" && c.Bool("deep", 1, 3) {
		n = c.Range("nops.deep", 30, 120)
	}
	env.Sample("writes through the unifier: immutableTags=%v policy=%v member-faults=%v repos=%v", immutable, pol, faulty, cfg.Repos)
	memModel := [2]*reg.Model{reg.NewModel(immutable), reg.NewModel(immutable)}
	_ = memModel
	for i := 0; i < n; i++ {
		op := g.Next()
		failedBefore := failed
		pendingBad = false
		started := [2]int{spies[0].count(), spies[1].count()}
		res := reg.Exec(ctx, u, op, h)
		if op.Kind == reg.UpStart && res.Err == nil {
			a, b := spies[0].between(started[0], -1, op.Repo), spies[1].between(started[1], -1, op.Repo)
			if len(a) == 1 && len(b) == 1 {
				memberIDs[h.ID[op.Handle]] = [2]string{a[0], b[0]}
			}
		}
		if pendingBad && (op.Kind == reg.UpStart || op.Kind == reg.UpResume) {
			badHandle[op.Handle] = true
		}
		if (op.Kind == reg.UpWrite || op.Kind == reg.UpCommit) && badHandle[op.Handle] && res.Err != nil {
			failed = true
			env.Fault("member-writer-fails")
		}
		env.Op(op.Kind.String() + ":" + reg.CodeOf(res.Err))
		env.Logf("%d %s -> %s", i, op, res)
		env.Sample("%s -> %s", op, res)
		if !failed {
			// two equal members behind the unifier behave like one registry
			ok, why := m.Step(op, res)
			if !ok {
				env.Failf(classOf("C15/writes", op, why), "step %d: %s through the unifier over two equal members\n  result: %s\n  model: %s", i, op, res, why)
			}
			if res.Err == nil && isMutating(op.Kind) && op.Kind != reg.UpStart && op.Kind != reg.UpResume {
				for mi := 0; mi < 2; mi++ {
					if why := effectPresent(ctx, mems[mi], op); why != "" {
						env.Failf("C15/writes/"+op.Kind.String()+"/success-not-on-both", "%s reported success but member %d does not reflect it: %s", op, mi, why)
					}
				}
			}
			if d := membersDiffer(ctx, mems, m); d != "" {
				env.Failf("C15/writes/"+op.Kind.String()+"/members-diverged", "after %s the two members are no longer observably equal: %s", op, d)
			}
			continue
		}
		// a member lost a chunk of an upload: a resume through the unifier must not vouch
		// for a session whose members disagree on what they have received
		if !failedBefore && op.Kind == reg.UpWrite && res.Err != nil {
			if u := m.Uploads[op.Handle]; u != nil {
				if w2, err := u2resume(ctx, u.Repo, h.ID[op.Handle], un); err == nil {
					if ids, ok := memberIDs[h.ID[op.Handle]]; ok {
						var sizes [2]int64
						for mi := 0; mi < 2; mi++ {
							if mw, err := mems[mi].PushBlobChunkedResume(ctx, u.Repo, ids[mi], -1, 0); err == nil {
								sizes[mi] = mw.Size()
							}
						}
						if sizes[0] != sizes[1] {
							env.Failf("C15/writes/UpResume/members-disagree", "after a member lost a chunk, PushBlobChunkedResume(offset -1) through the unifier returned a writer (size %d) although member 0 holds %d bytes and member 1 holds %d", w2.Size(), sizes[0], sizes[1])
						}
					}
					env.Probe("c15:resume-after-one-sided-loss-accepted")
				} else {
					env.Probe("c15:resume-after-one-sided-loss-refused")
				}
			}
		}
		if closeFailed && op.Kind == reg.UpClose && res.Err == nil {
			env.Failf("C15/writes/UpClose/success-despite-member-failure", "Close reported success although member %d's writer failed to close", badMember)
		}
		// a member write failed at some point: success is reported only if both succeeded
		if !failedBefore && res.Err == nil && op.Kind != reg.UpWrite && op.Kind != reg.UpStart && op.Kind != reg.UpResume && op.Kind != reg.UpClose {
			env.Failf("C15/writes/"+op.Kind.String()+"/success-despite-member-failure", "%s reported success although member %d was made to fail during it", op, badMember)
		}
		if res.Err == nil && isMutating(op.Kind) && op.Kind != reg.UpStart && op.Kind != reg.UpResume {
			// whatever reports success must be present on both members
			for mi := 0; mi < 2; mi++ {
				if why := effectPresent(ctx, mems[mi], op); why != "" {
					env.Failf("C15/writes/"+op.Kind.String()+"/success-not-on-both", "%s reported success but member %d does not reflect it: %s", op, mi, why)
				}
			}
		}
		if op.Kind == reg.UpCommit && res.Err == nil {
			for mi := 0; mi < 2; mi++ {
				if _, err := mems[mi].ResolveBlob(ctx, m.Uploads[op.Handle].Repo, op.Digest); err != nil {
					env.Failf("C15/writes/UpCommit/success-not-on-both", "Commit reported success but member %d does not hold the blob: %v", mi, err)
				}
			}
		}
		return // after an injected failure the members may legitimately differ; end the run
	}
}

// effectPresent checks that a successful write is visible on a member.
func effectPresent(ctx context.Context, mem *ocimem.Registry, op *reg.Op) string {
	switch op.Kind {
	case reg.PushBlob, reg.MountBlob:
		if _, err := mem.ResolveBlob(ctx, op.Repo, op.Digest); err != nil {
			return "blob missing: " + err.Error()
		}
	case reg.PushManifest:
		if _, err := mem.ResolveManifest(ctx, op.Repo, reg.Sha256(op.Data)); err != nil {
			return "manifest missing: " + err.Error()
		}
		if op.Tag != "" {
			if d, err := mem.ResolveTag(ctx, op.Repo, op.Tag); err != nil || d.Digest != reg.Sha256(op.Data) {
				return fmt.Sprintf("tag does not point at it: %v %v", d.Digest, err)
			}
		}
	case reg.DeleteBlob:
		if _, err := mem.ResolveBlob(ctx, op.Repo, op.Digest); err == nil {
			return "blob still present"
		}
	case reg.DeleteManifest:
		if _, err := mem.ResolveManifest(ctx, op.Repo, op.Digest); err == nil {
			return "manifest still present"
		}
	case reg.DeleteTag:
		if _, err := mem.ResolveTag(ctx, op.Repo, op.Tag); err == nil {
			return "tag still present"
		}
	}
	return ""
}

// membersDiffer compares the observable state of both members with the model.
func membersDiffer(ctx context.Context, mems [2]*ocimem.Registry, m *reg.Model) string {
	for name, repo := range m.Repos {
		for mi, mem := range mems {
			for d, data := range repo.Blobs {
				br, err := mem.GetBlob(ctx, name, d)
				if err != nil {
					return fmt.Sprintf("member %d lacks blob %s in %q: %v", mi, d, name, err)
				}
				got, _ := readAll(br)
				if !bytes.Equal(got, data) {
					return fmt.Sprintf("member %d holds other bytes for blob %s in %q", mi, d, name)
				}
			}
			for d, mm := range repo.Manifests {
				br, err := mem.GetManifest(ctx, name, d)
				if err != nil {
					return fmt.Sprintf("member %d lacks manifest %s in %q: %v", mi, d, name, err)
				}
				got, _ := readAll(br)
				if !bytes.Equal(got, mm.Data) {
					return fmt.Sprintf("member %d holds other bytes for manifest %s in %q", mi, d, name)
				}
			}
			tags, _ := ociregistry.All(mem.Tags(ctx, name, ""))
			var want []string
			for t, tg := range repo.Tags {
				want = append(want, t)
				d, err := mem.ResolveTag(ctx, name, t)
				if err != nil || d.Digest != tg.Digest {
					return fmt.Sprintf("member %d resolves tag %q in %q to %v (%v), want %s", mi, t, name, d.Digest, err, tg.Digest)
				}
			}
			sort.Strings(want)
			if !slices.Equal(tags, want) && !(len(tags) == 0 && len(want) == 0) {
				return fmt.Sprintf("member %d lists tags %v in %q, want %v", mi, tags, name, want)
			}
			// nothing extra
			for _, probe := range []ociregistry.Digest{} {
				_ = probe
			}
		}
	}
	// both members list the same repositories
	r0, _ := ociregistry.All(mems[0].Repositories(ctx, ""))
	r1, _ := ociregistry.All(mems[1].Repositories(ctx, ""))
	if !slices.Equal(r0, r1) {
		return fmt.Sprintf("member 0 lists repositories %v, member 1 lists %v", r0, r1)
	}
	return ""
}

func u2resume(ctx context.Context, repo, id string, u ociregistry.Interface) (ociregistry.BlobWriter, error) {
	return u.PushBlobChunkedResume(ctx, repo, id, -1, 0)
}

// referrersReordered is a member registry that lists referrers in an order of its own:
// reversed (1), rotated by one (2), or odd positions before even ones (3).
type referrersReordered struct {
	ociregistry.Interface
	how int
}

func (r *referrersReordered) Referrers(ctx context.Context, repo string, digest ociregistry.Digest, artifactType string) ociregistry.Seq[ociregistry.Descriptor] {
	ds, err := ociregistry.All(r.Interface.Referrers(ctx, repo, digest, artifactType))
	if err != nil {
		return ociregistry.ErrorSeq[ociregistry.Descriptor](err)
	}
	switch r.how {
	case 1:
		slices.Reverse(ds)
	case 2:
		if len(ds) > 1 {
			ds = append(ds[1:], ds[0])
		}
	case 3:
		var odd, even []ociregistry.Descriptor
		for i, d := range ds {
			if i%2 == 1 {
				odd = append(odd, d)
			} else {
				even = append(even, d)
			}
		}
		ds = append(odd, even...)
	}
	return ociregistry.SliceSeq(ds)
}
