package props

import (
	"encoding/base64"
	"fmt"
	"net/http"
	"net/url"
	"strings"
	"time"

	"cuelabs.dev/go/oci/ociregistry/ociauth"

	"verifsim/core"
	"verifsim/simnet"
)

// C11: credentials stay confined and the auth flow is bounded and non-intrusive.
func init() {
	core.Components["C11"] = [2][]string{
		{"ociauth std transport (per-host state, challenge selection and parsing, token request construction, retry logic, request cloning, body handling)"},
		{"registries, token servers and foreign hosts: fakes written for the harness", "the network incl. transport errors: simnet.Transport", "configuration lookups: an injected ociauth.Config that can fail", "clock and scheduling: testing/synctest + the simulator"}}
	core.Rules["C11"] = "one evaluation = one simulated conversation over 2 registry hosts with distinct canary credentials (plus a foreign host): 1-3 tasks issue 1-5 requests each, with/without bodies and GetBody; challenge shapes (Basic, Bearer, both, unknown schemes, malformed, missing realm, quoted realms with escapes), token-server failures (500/403/404, malformed JSON, missing token, no POST endpoint, subset grants), failing config lookups and transport errors; distinct = distinct sequence of (host, mode, body kind, outcome, requests sent) tokens x schedule; non-trivial = at least one request left the transport"
	register(&core.Scenario{Name: "c11-confinement", Property: "C11", Weight: 1, Bubble: true, Run: c11})
}

func c11(env *core.Env) {
	c := env.C
	// ("bearer-or-basic": a registry that answers some requests with a Bearer challenge and
	// others with a Basic challenge whose realm happens to look like a URL; a Basic realm
	// is a label, never somewhere to send anything)
	modes := []string{"bearer", "bearer", "basic", "both", "unknown-scheme", "malformed", "bearer-no-realm", "none", "bearer-or-basic"}
	// the two registries differ by name, or only by port
	samePort := c.Bool("hosts-differ-only-by-port", 1, 3)
	mk := func(i int) *regHost {
		name := fmt.Sprintf("reg%d.example", i)
		if samePort {
			name = fmt.Sprintf("reg.example:%d", 5000+i)
		}
		h := &regHost{name: name, realmHost: "auth." + name, service: name, mode: modes[c.Int("mode", len(modes))]}
		h.bearerDeny = []string{"", "", "none", "unknown", "malformed"}[c.Int("bearerdeny", 5)]
		if c.Bool("spurious401", 1, 5) {
			h.spurious401 = c.Range("spurious401.n", 1, 2)
		}
		if samePort {
			h.realmHost = fmt.Sprintf("auth%d.example", i)
		}
		rh := h.realmHost
		h.realmURL = []string{"http://" + rh + "/token", "http://" + rh + "/token?a=b,c", "http://" + rh + `/to"ken\path`, "http://" + rh + "/v2/token/", "http://" + rh + `/token?tenant=corp\alice`, "http://" + rh + `/token?q=a\\b"c`}[c.Int("realmurl", 6)]
		if c.Bool("realm.https", 1, 3) {
			h.realmURL = "https" + strings.TrimPrefix(h.realmURL, "http")
		}
		switch c.Int("creds", 5) {
		case 0:
		case 1:
			h.user, h.pass = fmt.Sprintf("user%d", i), fmt.Sprintf("pw%d-SECRET", i)
		case 2:
			h.refresh = fmt.Sprintf("rt%d-SECRET", i)
		case 3:
			h.user, h.pass, h.refresh = fmt.Sprintf("user%d", i), fmt.Sprintf("pw%d-SECRET", i), fmt.Sprintf("rt%d-SECRET", i)
		case 4:
			h.static = fmt.Sprintf("static%d-SECRET", i)
		}
		h.requireCreds = c.Bool("requirecreds", 1, 2) && (h.user != "" || h.refresh != "")
		h.grant = []string{"all", "all", "subset", "refuse-wide"}[c.Int("grant", 4)]
		h.noPOST = c.Bool("nopost", 1, 3)
		if h.noPOST && h.user == "" {
			h.requireCreds = false
		}
		h.lifetimes = [][]int{{0}, {1, 2}, {300}}[c.Int("lifetimes", 3)]
		h.tokenField = []string{"token", "access_token", "both"}[c.Int("tokenfield", 3)]
		h.giveRefresh = c.Bool("giverefresh", 1, 3)
		h.failure = []string{"", "", "", "status-500", "status-403", "status-404", "bad-json", "no-token", "redirect"}[c.Int("tokenfailure", 9)]
		if h.failure == "redirect" {
			h.failure = []string{"redirect-301", "redirect-302", "redirect-303", "redirect-307", "redirect-308"}[c.Int("redirect.status", 5)]
			// to a host nobody named, to the same host name on another port, to a
			// subdomain of the realm, or to the other registry's realm host
			h.redirectTo = []string{"http://other.example/token", "http://" + h.realmHost + ":8443/token", "http://sso." + h.realmHost + "/token", "other-realm", "other-scheme"}[c.Int("redirect.to", 5)]
			if h.redirectTo == "other-scheme" {
				// the same host name under the other scheme: another port, and from https
				// to http one on which everything travels in the clear
				flipped := "https"
				if strings.HasPrefix(h.realmURL, "https:") {
					flipped = "http"
				}
				h.redirectTo = flipped + "://" + h.realmHost + "/token"
			}
		}
		return h
	}
	hosts := []*regHost{mk(1), mk(2)}
	for i, h := range hosts {
		if h.redirectTo == "other-realm" {
			h.redirectTo = "http://" + hosts[1-i].realmHost + "/token"
		}
	}
	w := newAuthWorld(env, hosts)
	if c.Bool("host-field-differs", 1, 4) {
		w.hostHeader = func(urlHost string) string {
			switch c.Weighted("host-field", []int{3, 1, 2}) {
			case 1:
				return ""
			case 2:
				for _, h := range hosts {
					if h.name != urlHost {
						env.Probe("c11:host-field-names-the-other-registry")
						return h.name
					}
				}
			}
			return urlHost
		}
	}
	failFor := map[string]bool{}
	if c.Bool("configfail", 1, 8) {
		failFor[hosts[c.Int("configfail.host", 2)].name] = true
	}
	// transport errors on chosen exchanges
	netFaultAt := -1
	if c.Bool("netfault", 1, 4) {
		netFaultAt = c.Range("netfault.at", 0, 8)
	}
	nex := 0
	w.tr.Plan = func(req *http.Request) simnet.Fault {
		nex++
		if nex-1 == netFaultAt {
			return simnet.Fault{Kind: []simnet.FaultKind{simnet.DropRequest, simnet.DropResponse}[c.Int("netfault.kind", 2)]}
		}
		return simnet.Fault{}
	}
	w.rt = ociauth.NewStdTransport(ociauth.StdTransportParams{Config: worldConfig{w: w, failFor: failFor}, Transport: w.tr})
	ntasks := c.Range("ntasks", 1, 3)
	maxCalls := 5
	if env.Tier == "thorough" && c.Bool("deep", 1, 3) {
		ntasks, maxCalls = c.Range("ntasks.deep", 3, 8), 8
	}
	type planned struct {
		host              string
		required, desired string
		body, getBody     bool
		gap               time.Duration
	}
	plans := make([][]planned, ntasks)
	targets := []string{hosts[0].name, hosts[1].name, hosts[0].name, hosts[1].name, "other.example"}
	for t := range plans {
		for i, n := 0, c.Range("ncalls", 1, maxCalls); i < n; i++ {
			p := planned{host: targets[c.Int("target", len(targets))], required: scopeLattice[c.Int("required", len(scopeLattice))]}
			if c.Bool("desired", 1, 4) {
				p.desired = scopeLattice[c.Int("desired.scope", len(scopeLattice)-1)]
			}
			p.body = c.Bool("body", 1, 2)
			p.getBody = p.body && c.Bool("getbody", 1, 2)
			if c.Bool("gap", 1, 3) {
				p.gap = time.Duration(c.Range("gap.ms", 1, 3000)) * time.Millisecond
			}
			plans[t] = append(plans[t], p)
		}
	}
	for _, h := range hosts {
		env.Sample("host %s: mode=%s creds{user=%v refresh=%v static=%v} requireCreds=%v grant=%s noPOST=%v tokenFailure=%q realm=%q", h.name, h.mode, h.user != "", h.refresh != "", h.static != "", h.requireCreds, h.grant, h.noPOST, h.failure, h.realmURL)
	}
	sched := env.Sched
	nextID := 0
	checked := 0 // prefix of w.out already checked for confinement
	for t := 0; t < ntasks; t++ {
		t := t
		sched.Spawn(fmt.Sprintf("caller%d", t), func() {
			for _, p := range plans[t] {
				if p.gap > 0 {
					sched.Sleep(p.gap)
				} else {
					sched.Yield()
				}
				nextID++
				id := nextID
				res := w.call(id, p.host, p.required, p.desired, p.body, p.getBody)
				// ---- per-call oracles ----
				nreg := 0
				var lastReg *outReq
				for _, o := range res.outs {
					if o.kind != "realm" && o.dest == p.host {
						nreg++
						lastReg = o
					}
				}
				if nreg > 2 {
					env.Failf("C11/more-than-two-attempts", "one RoundTrip made %d attempts against %s. %s", nreg, p.host, describeOuts(res.outs))
				}
				if res.reqEq != "" {
					env.Failf("C11/caller-request-modified", "RoundTrip changed the caller's request:\n%s", res.reqEq)
				}
				if res.body != nil && res.body.closed == 0 {
					env.Failf("C11/body-not-closed", "RoundTrip returned (status %d, err %v) without closing the request body. %s", res.status, res.err, describeOuts(res.outs))
				}
				for i, b := range res.getBodies {
					if b.closed == 0 {
						env.Failf("C11/body-not-closed", "the body obtained from GetBody for attempt %d was never closed (status %d, err %v). %s", i+2, res.status, res.err, describeOuts(res.outs))
					}
				}
				// (the statement ties the 403 to the second of the "at most two attempts": a
				// token acquired in answer to this call's challenge and refused again. A token
				// acquired before the first attempt - refresh token and a challenge remembered
				// from an earlier call - that meets a 401 without a usable challenge leaves the
				// transport nothing to retry with; that 401 is handed to the caller as it is.)
				if lastReg != nil && lastReg.status == 401 && lastReg.bearer != "" && nreg == 2 {
					if it := w.issued[lastReg.bearer]; it != nil && it.callID == id && res.err == nil {
						if res.status != http.StatusForbidden {
							env.Failf("C11/401-after-fresh-token", "the registry answered 401 to a token acquired in the same call; the caller got status %d instead of 403. %s", res.status, describeOuts(res.outs))
						}
						env.Probe("c11:401-after-fresh-token-surfaced-as-403")
					}
				}
				// ---- confinement over everything sent so far ----
				for ; checked < len(w.out); checked++ {
					checkConfinement(env, w, hosts, w.out[checked])
				}
				env.Op(fmt.Sprintf("%s|%s|body%v%v|%d|%v|out%d", p.host, modeOf(w, p.host), p.body, p.getBody, res.status, res.err != nil, len(res.outs)))
				env.Logf("task %d call %d %s required=%q -> %d %v; %s", t, id, p.host, p.required, res.status, res.err, describeOuts(res.outs))
				env.Sample("task %d: %s required=%q body=%v getbody=%v -> %d err=%v; sent: %s", t, p.host, p.required, p.body, p.getBody, res.status, res.err, describeOuts(res.outs))
			}
		})
	}
}

func modeOf(w *authWorld, host string) string {
	if h := w.hosts[host]; h != nil {
		return h.mode
	}
	return "foreign"
}

// checkConfinement: o must not carry anything that belongs to another host, and a
// host's own secrets only where the statement allows.
func checkConfinement(env *core.Env, w *authWorld, hosts []*regHost, o *outReq) {
	hay := []string{o.url, o.body}
	for k, vs := range o.header {
		if k == "X-Demand" {
			continue
		}
		for _, v := range vs {
			hay = append(hay, v)
			if strings.HasPrefix(v, "Basic ") {
				if raw, err := base64.StdEncoding.DecodeString(strings.TrimPrefix(v, "Basic ")); err == nil {
					hay = append(hay, string(raw))
				}
			}
		}
	}
	all := strings.Join(hay, "\n")
	if o.kind == "realm" {
		// a token request goes to exactly a realm URL that its registry named (the
		// client may only add its own scope/service/... query parameters)
		owner := w.realms[o.dest]
		if owner != nil {
			ok := false
			for named := range w.namedRealmURLs[owner.name] {
				if realmMatches(named, o.url) {
					ok = true
				}
			}
			// (where the realm itself sends the client on, within its own origin, is the
			// realm's business: the request after a redirect answer goes where that said)
			if !ok && o.seq > 0 {
				for i := o.seq - 1; i >= 0; i-- {
					if p := w.out[i]; p.callID == o.callID {
						ok = p.kind == "realm" && p.status/100 == 3
						break
					}
				}
			}
			if !ok && (o.basicP != "" || strings.Contains(o.body, "refresh_token=")) {
				env.Failf("C11/credentials-to-unnamed-realm-url", "credentials of %s were sent to %s, but the realm URLs %s has named are %v", owner.name, o.url, owner.name, w.namedRealmURLs[owner.name])
			}
		}
	}
	for _, h := range hosts {
		where := fmt.Sprintf("%s %s (%s)", o.method, o.url, o.kind)
		if h.pass != "" && strings.Contains(all, h.pass) {
			okRealm := o.kind == "realm" && w.namedRealms[h.name][o.dest] && o.basicP == h.pass
			okBasic := o.kind == "registry" && o.dest == h.name && w.basicChallenged[h.name] && o.basicP == h.pass
			if !okRealm && !okBasic {
				env.Failf("C11/password-leak/"+o.kind, "the password of %s was sent in %s; realms named by %s so far: %v; Basic challenge from %s seen: %v", h.name, where, h.name, w.namedRealms[h.name], h.name, w.basicChallenged[h.name])
			}
			env.Probe("c11:password-sent-where-allowed")
		}
		refreshSent := h.refresh != "" && strings.Contains(all, h.refresh) || strings.Contains(all, "rt-issued-"+h.name)
		if refreshSent {
			if !(o.kind == "realm" && w.namedRealms[h.name][o.dest]) {
				env.Failf("C11/refresh-token-leak/"+o.kind, "a refresh token of %s was sent in %s; realms named by %s so far: %v", h.name, where, h.name, w.namedRealms[h.name])
			}
			env.Probe("c11:refresh-token-sent-where-allowed")
		}
		tokenSent := h.static != "" && strings.Contains(all, h.static) || strings.Contains(all, "tok-"+h.name+"-")
		if tokenSent && !(o.kind == "registry" && o.dest == h.name) {
			env.Failf("C11/access-token-leak/"+o.kind, "an access token of %s was sent in %s", h.name, where)
		}
		if h.user != "" && strings.Contains(all, h.user) && o.dest != h.name && !w.namedRealms[h.name][o.dest] {
			env.Failf("C11/username-leak/"+o.kind, "the user name of %s was sent in %s", h.name, where)
		}
	}
}

// realmMatches: sent is the named realm URL plus query parameters added by the client.
func realmMatches(named, sent string) bool {
	nu, err1 := url.Parse(named)
	su, err2 := url.Parse(sent)
	if err1 != nil || err2 != nil {
		return named == sent
	}
	if nu.Scheme != su.Scheme || nu.Host != su.Host || nu.Path != su.Path {
		return false
	}
	sq := su.Query()
	for k, vs := range nu.Query() {
		got := sq[k]
		for _, v := range vs {
			found := false
			for _, g := range got {
				if g == v {
					found = true
				}
			}
			if !found {
				return false
			}
		}
	}
	return true
}
