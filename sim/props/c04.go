package props

import (
	"bytes"
	"context"
	"errors"
	"fmt"
	"math"
	"net/http"
	"slices"
	"strings"

	"cuelabs.dev/go/oci/ociregistry"
	"cuelabs.dev/go/oci/ociregistry/ocimem"
	"cuelabs.dev/go/oci/ociregistry/ociserver"
	"cuelabs.dev/go/oci/ociregistry/ociunify"

	"verifsim/core"
	"verifsim/reg"
	"verifsim/simnet"
)

// C04: chunked and resumable uploads commit exactly the bytes written.
//
// The caller is a correct client of the BlobWriter contract: on any error it
// resumes the upload asking the registry for the current offset and continues
// from there. The simulated network loses requests and responses, duplicates
// requests, and breaks connections in the middle of a request body; a "client
// crash" abandons a writer with its unflushed buffer. After the last fault the
// remaining writes and the commit must succeed (bounded liveness) and the blob
// must be exactly the content.
func init() {
	core.Components["C04"] = [2][]string{stdReal, stdStub}
	core.Rules["C04"] = "one evaluation = one simulated upload session (content, partition into writes, chunk-size hint, close/resume/abandon/stale-offset pattern, network fault plan) on one stack; distinct = distinct sequence of (step kind, outcome, fired fault) tokens; non-trivial = at least one write reached the registry"
	core.Assumptions["C04"] = []string{
		"resume with offset -1 when the registry holds exactly one byte is excluded by the property (the Range header cannot tell 0 from 1 byte): the harness uses the explicit offset there",
		"the harness reads the registry's true upload offset through the backend (ocimem) only to decide which oracle applies, never to help the client",
	}
	for _, k := range []string{"mem", "http1", "http2", "http1+debug", "unify", "unify+http1"} {
		kind := k
		w := 2
		if kind == "http1" {
			w = 4
		}
		// ociunify runs its member calls in goroutines: those stacks run inside the
		// deterministic scheduler
		bubble := strings.HasPrefix(kind, "unify")
		register(&core.Scenario{Name: "c04-clean-" + kind, Property: "C04", Weight: w, Bubble: bubble, LeakIsViolation: bubble, Run: func(env *core.Env) { c04(env, kind, false) }})
		if kind != "mem" && kind != "unify" {
			register(&core.Scenario{Name: "c04-faults-" + kind, Property: "C04", Weight: w, Bubble: bubble, LeakIsViolation: bubble, Run: func(env *core.Env) { c04(env, kind, true) }})
		}
	}
	// one member of a unified registry loses a write: the caller resumes (or, when the
	// unifier refuses because the members disagree, starts again) and must end up with
	// the exact content on both members
	for _, kind := range []string{"mem", "http1"} {
		kind := kind
		register(&core.Scenario{Name: "c04-overtaken-writer-" + kind, Property: "C04", Weight: 1, Run: func(env *core.Env) { c04overtaken(env, kind) }})
	}
	register(&core.Scenario{Name: "c04-concurrent-patches", Property: "C04", Weight: 2, Bubble: true, LeakIsViolation: true, Run: c04concurrentPatches})
	for _, kind := range []string{"mem+http1", "mem+http2"} {
		kind := kind
		register(&core.Scenario{Name: "c04-premature-writer-" + strings.TrimPrefix(kind, "mem+"), Property: "C04", Weight: 1, Run: func(env *core.Env) { c04premature(env, kind) }})
	}
	register(&core.Scenario{Name: "c04-unify-member-loses-write", Property: "C04", Weight: 2, Bubble: true, LeakIsViolation: true, Run: func(env *core.Env) { c04(env, "unify-memberfault", false) }})
}

type c04run struct {
	env         *core.Env
	ctx         context.Context
	st          *stack
	repo        string
	hint        int
	content     []byte
	w           ociregistry.BlobWriter
	id          string
	memberFault bool // a unify member failed a write: the members may disagree on the upload size
	badWriter   bool // the current writer contains a member writer whose writes fail
	hint2       int
	rootGoid    int64 // the goroutine the caller's calls are made from
	deferred    bool  // a fault hit a request the library sent from a goroutine of its own: the failure is reported by some later call
	faults      int   // faults still allowed
	fired       bool
	direct      bool
	calls       int // client calls since the last fault (liveness)
	sessFrom    int // how many uploads the backend had started before the current session
	sessTo      int // ... and when the call that started it had returned
}

// truth returns the number of bytes the registry holds for the session. The session
// is found in the backend by when it was started, not by taking the caller's upload
// id apart (how the layers in between spell ids is their business). A duplicated
// start request leaves a second, empty session behind that nobody knows the id of:
// of the sessions started by the current start call, the one in use is the largest.
func (r *c04run) truth() int64 {
	r.settle()
	ids := r.st.Uploads.between(r.sessFrom, r.sessTo, r.repo)
	if len(ids) == 0 {
		core.Harnessf("the backend has not started an upload for this session")
	}
	size := int64(-1)
	for _, id := range ids {
		size = max(size, backendUploadSize(r.ctx, r.st.Mem, r.repo, id))
	}
	return size
}

func backendUploadSize(ctx context.Context, mem *ocimem.Registry, repo, id string) int64 {
	w, err := mem.PushBlobChunkedResume(ctx, repo, id, -1, 0)
	if err != nil {
		core.Harnessf("cannot query backend upload: %v", err)
	}
	return w.Size()
}

func (r *c04run) lastStatus() int {
	if len(r.st.Transports) == 0 {
		return 0
	}
	tr := r.st.Transports[len(r.st.Transports)-1]
	if len(tr.Log) == 0 {
		return 0
	}
	return tr.Log[len(tr.Log)-1].Status
}

// recoverSession: the documented way to continue after an error.
// beginCall: the next client call starts. A failure is excused by a fault injected
// during the call.
func (r *c04run) beginCall() { r.fired = false }

// settle lets work that the library left running in the background come to rest.
func (r *c04run) settle() {
	if r.env.Sched != nil {
		r.env.Sched.Settle()
	} else {
		core.Settle()
	}
}

func (r *c04run) recoverSession(why string) int64 {
	r.env.Probe("c04:recovered-after-error")
	r.deferred = false // (the writer it concerned is given up)
	// whatever the party that went away had in flight is dealt with before its
	// successor starts (the statement is about one caller at a time)
	r.settle()
	for attempt := 0; ; attempt++ {
		if attempt > 12 {
			r.env.Failf("C04/liveness/resume", "cannot resume the upload after %d attempts (%s)", attempt, why)
		}
		t := r.truth()
		off := int64(-1)
		if t == 1 {
			off = 1 // excluded case: Range cannot express one byte
			r.env.Probe("c04:one-byte-steered")
		}
		r.beginCall()
		r.badWriter = false // the previous writer is abandoned; the plan may mark the new one
		w, err := r.st.Reg.PushBlobChunkedResume(r.ctx, r.repo, r.id, off, r.hint)
		r.env.Op("resume-1")
		r.env.Logf("recover(%s): registry holds %d, resume(offset %d) -> %v", why, t, off, err)
		if err != nil {
			if r.memberFault {
				// the unifier refuses to resume because its members disagree on the size:
				// the documented way out is to start the upload again
				r.memberFault = false
				r.badWriter = false
				r.env.Probe("c04:restart-after-member-divergence")
				r.sessFrom = r.st.Uploads.count()
				nw, err := r.st.Reg.PushBlobChunked(r.ctx, r.repo, r.hint)
				r.sessTo = r.st.Uploads.count()
				if err != nil {
					r.env.Failf("C04/start/unexpected-failure", "PushBlobChunked (restart) failed: %v", err)
				}
				r.w, r.id = nw, nw.ID()
				return 0
			}
			if !r.fired {
				r.env.Failf("C04/resume/unexpected-failure", "PushBlobChunkedResume(offset %d) failed without any injected fault: %v (registry holds %d bytes)", off, err, t)
			}
			continue
		}
		if r.memberFault {
			// the resume was accepted although a member had lost a write: whatever size it
			// reports, continuing from there must lead to a successful commit (checked by
			// the caller: from now on no error is excused)
			r.memberFault = false
			r.beginCall()
			r.w = w
			return w.Size()
		}
		if w.Size() != t {
			r.env.Failf("C04/resume/wrong-size", "resumed writer reports size %d but the registry holds %d bytes (offset asked: %d)", w.Size(), t, off)
		}
		r.w = w
		return t
	}
}

func c04(env *core.Env, kind string, faulty bool) {
	c := env.C
	r := &c04run{env: env, ctx: context.Background(), direct: kind == "mem" || kind == "unify", rootGoid: core.Goid()}
	if !strings.Contains(kind, "mem") && !strings.HasPrefix(kind, "unify") {
		kind = "mem+" + kind
	}
	o := &stackOpts{Kind: kind, OneByte: c.Bool("onebyte", 1, 8), EOFData: c.Bool("eofdata", 1, 4)}
	maxFaults := 0
	if faulty {
		maxFaults = c.Range("nfaults", 1, 4)
		if env.Tier == "thorough" && c.Bool("deep", 1, 3) {
			maxFaults = c.Range("nfaults.deep", 4, 10)
		}
	}
	r.faults = maxFaults
	rate := c.Range("faultrate", 2, 6)
	o.Plan = func(req *http.Request) simnet.Fault {
		if r.faults <= 0 || !strings.Contains(req.URL.Path, "/blobs/uploads/") || req.Method == "POST" {
			return simnet.Fault{}
		}
		if !c.Bool("fault?", 1, rate) {
			return simnet.Fault{}
		}
		r.faults--
		r.fired = true
		if core.Goid() != r.rootGoid {
			// (a library that sends a chunk in the background after Write has returned)
			r.deferred = true
			env.Probe("c04:fault-hit-a-request-sent-in-the-background")
		}
		r.calls = 0
		kinds := []simnet.FaultKind{simnet.DropRequest, simnet.DropResponse, simnet.Duplicate, simnet.DuplicateSecond, simnet.TruncateRequest}
		if req.Method == "PUT" {
			// (only where the client can tell: a duplicate of the previous answer, a 202 or
			// 204, read in place of the closing PUT's own; a stale 202 for a PATCH is
			// indistinguishable from the real one)
			kinds = append(kinds, simnet.StaleResponse)
		}
		f := simnet.Fault{Kind: kinds[c.Int("faultkind", len(kinds))]}
		if f.Kind == simnet.TruncateRequest {
			n := int(req.ContentLength)
			if n <= 0 {
				f.Kind = simnet.DropRequest
			} else {
				f.K = []int{0, 1, 2, n / 2, n - 1}[c.Int("truncat", 5)]
				if f.K < 0 {
					f.K = 0
				}
			}
		}
		return f
	}
	if kind == "unify-memberfault" {
		failWriter := c.Range("memberfault.writer", 0, 3) // which writer handed out by member 1 fails its writes
		nw := 0
		plan := &reg.FaultPlan{WriterFaults: func(call *reg.Call) (bool, bool) {
			nw++
			if nw-1 == failWriter {
				r.badWriter = true
				env.Fault("unify-member-write-fails")
				return true, false
			}
			return false, false
		}}
		m0, m1 := newMem(false), newMem(false)
		pol := ociunify.ReadSequential
		if c.Bool("concurrent", 1, 2) {
			pol = ociunify.ReadConcurrent
		}
		spy := &uploadSpy{Interface: m0}
		r.st = &stack{Mem: m0, Mem1: m1, Tracker: reg.NewTracker(), Desc: kind, Uploads: spy,
			Reg: ociunify.New(spy, reg.Wrap(m1, reg.NewTracker(), plan), &ociunify.Options{ReadPolicy: pol})}
		r.direct = true
	} else {
		r.st = buildStack(env, o)
	}
	for _, tr := range r.st.Transports {
		tr.Record = true
	}
	r.repo = repoNames[c.Int("repo", len(repoNames))]
	r.hint = []int{0, -1, 1, 100, 8191, 8192, 8193, 20000}[c.Int("hint", 8)]
	hugeHint := !r.direct && c.Bool("hint.huge", 1, 12)
	// effective chunk size
	eff := r.hint
	if hugeHint {
		// "larger than the content" taken to the limit: nothing is sent before Close or
		// Commit. (Only values for which a mistaken allocation of that size is refused
		// by the runtime at once; one the machine would try to satisfy would take the
		// checker down with it.)
		r.hint = []int{math.MaxInt, math.MaxInt / 2}[c.Int("hint.huge.which", 2)]
		eff = 64 * 1024
	}
	if !r.direct {
		if eff <= 0 {
			eff = 64 * 1024
		}
		if eff < 8192 {
			eff = 8192
		}
	} else if eff <= 0 {
		eff = 100
	}
	// start
	r.sessFrom = r.st.Uploads.count()
	w, err := r.st.Reg.PushBlobChunked(r.ctx, r.repo, r.hint)
	r.sessTo = r.st.Uploads.count()
	if err != nil {
		env.Failf("C04/start/unexpected-failure", "PushBlobChunked failed: %v", err)
	}
	// The workload is sized by the chunk size the writer reports (so that "several chunk
	// sizes" stays true whatever the defaults are); the value worked out above is only
	// the fallback for writers that report nothing usable.
	if w != nil && !hugeHint {
		if cs := w.ChunkSize(); cs > 0 && cs <= 1<<20 {
			eff = cs
		}
	}
	r.w = w
	r.id = w.ID()
	lens := []int{0, 1, 2, 3, eff - 1, eff, eff + 1, 2*eff + 1, 3 * eff, c.Range("len.any", 0, 5*eff)}
	L := lens[c.Int("len", len(lens))]
	if L < 0 {
		L = 0
	}
	if L > 5*eff {
		L = 5 * eff
	}
	r.content = c.Bytes("content", L)
	dig := reg.Sha256(r.content)
	env.Sample("stack=%s repo=%q hint=%d effective-chunk=%d length=%d faults<=%d", kind, r.repo, r.hint, eff, L, maxFaults)

	env.Op("start")
	pos := int64(0) // bytes of content handed to the current writer chain

	// cut points
	nw := c.Range("nwrites", 1, 12)
	cuts := map[int]bool{}
	for i := 0; i < nw-1 && L > 0; i++ {
		cands := []int{1, 2, L - 1, eff, eff - 1, eff + 1, 2 * eff, c.Range("cut.any", 0, L)}
		k := cands[c.Int("cut", len(cands))]
		if k > 0 && k < L {
			cuts[k] = true
		}
	}

	failedHere := func(what string, err error) {
		// An error is legitimate only if a fault was injected during this call.
		if !r.fired && !r.badWriter && !r.deferred {
			env.Failf("C04/"+what+"/unexpected-failure", "%s failed although no fault was injected: %v", what, err)
		}
		r.deferred = false
		if r.badWriter {
			r.memberFault = true // one member has refused data the other accepted
		}
		env.Op(what + ":error-under-fault")
	}

	for pos < int64(L) {
		end := int64(L)
		for k := int(pos) + 1; k < L; k++ {
			if cuts[k] {
				end = int64(k)
				break
			}
		}
		chunk := r.content[pos:end]
		r.beginCall()
		r.calls++
		n, err := r.w.Write(chunk)
		env.Op(fmt.Sprintf("write:%v", err == nil))
		env.Logf("write [%d,%d) -> %d %v", pos, end, n, err)
		if err != nil {
			failedHere("Write", err)
			// (a Write that fails says how much of its argument it took before failing -
			// nothing, as a rule; the writer's size is what was taken, no more)
			if n < 0 || n > len(chunk) {
				env.Failf("C04/Write/count", "failed Write of %d bytes returned %d", len(chunk), n)
			}
			if got := r.w.Size(); got != pos+int64(n) {
				env.Failf("C04/Size/counts-failed-write", "Write of [%d,%d) failed (%v) having taken %d bytes, but the writer now reports Size()=%d; %d bytes had been written successfully before it", pos, end, err, n, got, pos)
			}
			chunk = chunk[n:]
			pos += int64(n)
			if !r.direct && !r.badWriter && !r.memberFault && c.Bool("retry-same-writer", 1, 2) {
				// the caller tries the same Write again on the same writer: it either goes
				// through (the first attempt never reached the registry) or fails again
				// (it did, and the writer's offset is stale); nothing may be sent twice
				r.beginCall()
				r.calls++
				n2, err2 := r.w.Write(chunk)
				env.Op(fmt.Sprintf("write-retry:%v", err2 == nil))
				env.Logf("retry write [%d,%d) on the same writer -> %d %v", pos, end, n2, err2)
				env.Probe("c04:write-retried-on-same-writer")
				if err2 == nil {
					if n2 != len(chunk) {
						env.Failf("C04/Write/short", "retried Write of %d bytes returned %d without error", len(chunk), n2)
					}
					pos = end
					if got := r.w.Size(); got != pos {
						env.Failf("C04/Size/wrong", "writer Size()=%d after a retried write up to offset %d", got, pos)
					}
					continue
				}
			}
			pos = r.recoverSession("write failed")
			continue
		}
		if n != len(chunk) {
			env.Failf("C04/Write/short", "Write of %d bytes returned %d without error", len(chunk), n)
		}
		pos = end
		if got := r.w.Size(); got != pos {
			env.Failf("C04/Size/wrong", "writer Size()=%d after writing up to offset %d", got, pos)
		}
		if pos >= int64(L) {
			break
		}
		// boundary action
		switch c.Weighted("boundary", []int{50, 12, 12, 12, 14}) {
		case 1, 2: // close and resume (explicit offset / ask the registry)
			r.beginCall()
			err := r.w.Close()
			env.Op(fmt.Sprintf("close:%v", err == nil))
			if err != nil {
				failedHere("Close", err)
				pos = r.recoverSession("close failed")
				continue
			}
			r.id = r.w.ID()
			if t := r.truth(); t != pos {
				env.Failf("C04/Close/not-flushed", "after a successful Close the registry holds %d bytes, the caller wrote %d", t, pos)
			}
			explicit := c.Bool("explicit", 1, 2) || pos == 1
			off := int64(-1)
			if explicit {
				off = pos
			}
			r.beginCall()
			nwr, err := r.st.Reg.PushBlobChunkedResume(r.ctx, r.repo, r.id, off, r.hint)
			env.Op(fmt.Sprintf("resume:%v:%v", explicit, err == nil))
			if err != nil {
				failedHere("Resume", err)
				pos = r.recoverSession("resume failed")
				continue
			}
			if nwr.Size() != pos {
				env.Failf("C04/resume/wrong-size", "writer resumed at offset %d reports size %d; registry holds %d", off, nwr.Size(), pos)
			}
			r.w = nwr
			env.Probe("c04:close-resume")
		case 3: // client crash: the writer is abandoned with whatever it had buffered
			env.Fault("client-abandons-writer")
			r.calls = 0
			pos = r.recoverSession("client crashed")
			env.Probe("c04:abandon-resume")
		case 4: // stale offset probe
			r.beginCall()
			if err := r.w.Close(); err != nil {
				failedHere("Close", err)
				pos = r.recoverSession("close failed")
				continue
			}
			r.id = r.w.ID()
			t := r.truth()
			stale := []int64{t - 1, t + 1, 0, t + 5}[c.Int("stale", 4)]
			if stale < 0 || stale == t {
				stale = t + 1
			}
			savedFaults := r.faults
			r.faults = 0 // the probe itself runs fault-free so that its verdict is unambiguous
			sw, err := r.st.Reg.PushBlobChunkedResume(r.ctx, r.repo, r.id, stale, r.hint)
			if err != nil {
				env.Failf("C04/stale/resume-failed", "resume at explicit offset %d failed: %v", stale, err)
			}
			_, werr := sw.Write([]byte("stale-data"))
			cerr := error(nil)
			viaCommit := c.Bool("stale.commit", 1, 3)
			if werr == nil && viaCommit {
				// the stale data travels with the closing PUT instead of a PATCH
				_, cerr = sw.Commit(reg.Sha256([]byte("stale-data")))
			} else if werr == nil {
				cerr = sw.Close()
			} else if c.Bool("stale.again", 1, 2) {
				// a refused writer stays refused: a second write must not get through either
				if _, werr2 := sw.Write([]byte("more-stale-data")); werr2 == nil {
					if t2 := r.truth(); t2 != t {
						env.Failf("C04/stale/altered", "after a write at stale offset %d was refused, a second write on the same writer was accepted and changed the upload from %d to %d bytes", stale, t, t2)
					}
				}
			}
			perr := werr
			if perr == nil {
				perr = cerr
			}
			env.Op("stale-probe")
			env.Probe("c04:stale-offset-probe")
			if perr == nil {
				env.Failf("C04/stale/accepted", "data sent at offset %d was accepted although the registry holds %d bytes", stale, t)
			}
			if !errors.Is(perr, ociregistry.ErrRangeInvalid) {
				env.Failf("C04/stale/wrong-error", "data at stale offset %d (registry holds %d) was refused with %s, want RANGE_INVALID: %v", stale, t, reg.CodeOf(perr), perr)
			}
			if !r.direct {
				if s := r.lastStatus(); s != http.StatusRequestedRangeNotSatisfiable {
					env.Failf("C04/stale/wrong-status", "stale %s answered with HTTP %d, want 416", map[bool]string{false: "PATCH", true: "closing PUT"}[viaCommit && werr == nil], s)
				}
			}
			if t2 := r.truth(); t2 != t {
				env.Failf("C04/stale/altered", "a refused write at stale offset %d changed the upload from %d to %d bytes", stale, t, t2)
			}
			r.faults = savedFaults
			r.calls = 0
			pos = r.recoverSession("after stale probe")
		}
	}

	// wrong digest on a separate session
	if kind != "unify-memberfault" && c.Bool("wrongdigest", 1, 3) {
		saved := r.faults
		r.faults = 0
		w2, err := r.st.Reg.PushBlobChunked(r.ctx, r.repo, r.hint)
		if err != nil {
			env.Failf("C04/start/unexpected-failure", "second PushBlobChunked failed: %v", err)
		}
		junk := c.Bytes("junk", c.Range("junklen", 0, 20))
		if _, err := w2.Write(junk); err != nil {
			env.Failf("C04/Write/unexpected-failure", "write on second session failed: %v", err)
		}
		wrong := reg.Sha256(append([]byte("x"), junk...))
		_, err = w2.Commit(wrong)
		env.Op("wrong-digest-commit")
		if err == nil {
			env.Failf("C04/commit/wrong-digest-accepted", "Commit with a digest that does not match the %d written bytes succeeded", len(junk))
		}
		for _, d := range []ociregistry.Digest{wrong, reg.Sha256(junk)} {
			if _, err := r.st.Mem.ResolveBlob(r.ctx, r.repo, d); err == nil {
				env.Failf("C04/commit/wrong-digest-stored", "after a failed commit the registry holds a blob %s", d)
			}
		}
		r.faults = saved
		env.Probe("c04:wrong-digest-commit")
	}

	// commit (with recovery)
	for attempt := 0; ; attempt++ {
		if attempt > 12 {
			env.Failf("C04/liveness/commit", "commit did not succeed after %d attempts", attempt)
		}
		if pos < int64(L) {
			// everything the caller wrote is either at the registry or must be re-sent
			r.beginCall()
			r.calls++
			n, err := r.w.Write(r.content[pos:])
			env.Op(fmt.Sprintf("write-rest:%v", err == nil))
			env.Logf("write rest [%d,%d) -> %d %v", pos, L, n, err)
			if err != nil {
				failedHere("Write", err)
				pos = r.recoverSession("write failed")
				continue
			}
			pos = int64(L)
		}
		r.beginCall()
		r.calls++
		desc, err := r.w.Commit(dig)
		env.Op(fmt.Sprintf("commit:%v", err == nil))
		env.Logf("commit -> %v", err)
		if err == nil {
			if desc.Digest != dig || desc.Size != int64(L) {
				env.Failf("C04/commit/descriptor", "Commit returned {%s %d}, want {%s %d}", desc.Digest, desc.Size, dig, L)
			}
			break
		}
		failedHere("Commit", err)
		// The closing request may have been applied although its answer was lost, or been
		// delivered twice: then the blob is there, and whether its session can still be
		// resumed is the registry's business (the statement is about what gets committed).
		// A caller finds out the same way: by asking for the blob.
		if _, rerr := r.st.Mem.ResolveBlob(r.ctx, r.repo, dig); rerr == nil {
			env.Probe("c04:commit-applied-although-reported-failed")
			break
		}
		pos = r.recoverSession("commit failed")
	}
	if faulty && r.faults == 0 {
		env.Probe("c04:all-planned-faults-fired")
		// Bounded liveness: once faults (network faults, client crashes, stale probes) have
		// stopped, every call succeeds (checked call by call above) and the upload needs
		// no more Write/Commit calls than there are write segments left, plus one for a
		// segment split by a partial transfer, plus the commit.
		if r.calls > nw+3 {
			env.Failf("C04/liveness/calls", "%d client calls were needed after the last fault (budget %d)", r.calls, nw+3)
		}
	}

	// the committed blob is exactly the content, on the backend and through the stack
	r.faults = 0
	views := []ociregistry.Interface{r.st.Mem, r.st.Reg}
	if r.st.Mem1 != nil {
		views = append(views, r.st.Mem1) // both members of a unified registry hold the blob
	}
	for i, rg := range views {
		br, err := rg.GetBlob(r.ctx, r.repo, dig)
		if err != nil {
			env.Failf("C04/final/missing", "GetBlob after a successful commit failed (via %d): %v", i, err)
		}
		data, rerr := readAll(br)
		if rerr != nil {
			env.Failf("C04/final/read-error", "reading the committed blob failed: %v", rerr)
		}
		if !bytes.Equal(data, r.content) {
			env.Failf("C04/final/bytes", "committed blob has %d bytes that differ from the %d bytes written (first difference at %d)", len(data), L, firstDiff(data, r.content))
		}
	}
	// The closing request of a finished upload arrives once more, asking for another
	// digest (a retry gone astray): whether the registry still knows the session is its
	// business, but it cannot succeed, and it leaves what was committed as it is.
	if c.Bool("closing-request-again-wrong-digest", 1, 3) {
		wrong := reg.Sha256(append([]byte("not-"), r.content...))
		if w4, err := r.st.Reg.PushBlobChunkedResume(r.ctx, r.repo, r.w.ID(), int64(L), r.hint); err == nil {
			_, cerr := w4.Commit(wrong)
			w4.Close()
			env.Op(fmt.Sprintf("closing-again-wrong-digest:%v", cerr == nil))
			if cerr == nil {
				env.Failf("C04/commit/wrong-digest-accepted", "a second Commit of the finished upload, with a digest that does not match its %d bytes, succeeded", L)
			}
			env.Probe("c04:closing-request-again-wrong-digest")
		}
		if _, err := r.st.Mem.ResolveBlob(r.ctx, r.repo, wrong); err == nil {
			env.Failf("C04/commit/wrong-digest-stored", "after a refused second commit the registry holds a blob %s", wrong)
		}
		br, err := r.st.Mem.GetBlob(r.ctx, r.repo, dig)
		if err != nil {
			env.Failf("C04/final/missing", "the committed blob is gone after a refused second commit: %v", err)
		}
		if data, _ := readAll(br); !bytes.Equal(data, r.content) {
			env.Failf("C04/final/bytes", "the committed blob changed after a refused second commit (%d bytes, want %d)", len(data), L)
		}
	}
	_ = ocimem.New
}

func readAll(br ociregistry.BlobReader) ([]byte, error) {
	defer br.Close()
	var buf bytes.Buffer
	_, err := buf.ReadFrom(br)
	return buf.Bytes(), err
}

func firstDiff(a, b []byte) int {
	n := len(a)
	if len(b) < n {
		n = len(b)
	}
	for i := 0; i < n; i++ {
		if a[i] != b[i] {
			return i
		}
	}
	return n
}

// c04overtaken: two writers resumed on one upload at the offset that was right when
// they were resumed. One writes; the other's data is then "sent at an offset
// different from what the registry has already received" and must be refused
// without altering the upload, whichever of them resumed first.
func c04overtaken(env *core.Env, kind string) {
	c := env.C
	ctx := context.Background()
	mem := ocimem.New()
	spy := &uploadSpy{Interface: mem}
	var r ociregistry.Interface = spy
	if kind != "mem" {
		r, _ = httpHop(env, spy, &stackOpts{}, "hop")
	}
	repo := repoNames[c.Int("repo", len(repoNames))]
	base := c.Bytes("base", []int{0, 1, 5, 300}[c.Int("baselen", 4)])
	w0, err := r.PushBlobChunked(ctx, repo, 0)
	if err != nil {
		env.Failf("C04/start/unexpected-failure", "PushBlobChunked failed: %v", err)
	}
	if len(base) > 0 {
		if _, err := w0.Write(base); err != nil {
			env.Failf("C04/Write/unexpected-failure", "Write failed although no fault was injected: %v", err)
		}
	}
	// (called directly, the writer that started the upload may stay in use: it is one
	// more writer with a position of its own)
	creatorWrites := kind == "mem" && c.Bool("creator-stays-in-use", 1, 3)
	if !creatorWrites {
		if err := w0.Close(); err != nil {
			env.Failf("C04/Close/unexpected-failure", "Close failed although no fault was injected: %v", err)
		}
	}
	id := w0.ID()
	n := int64(len(base))
	offset := func(tag string) int64 {
		if n != 1 && c.Bool(tag, 1, 3) {
			return -1 // ask the registry (excluded by the statement when exactly one byte is held)
		}
		return n
	}
	offA, offB := offset("a.asks"), offset("b.asks")
	wA, err := r.PushBlobChunkedResume(ctx, repo, id, offA, 0)
	if err != nil {
		env.Failf("C04/resume/unexpected-failure", "PushBlobChunkedResume(offset %d) failed: %v", offA, err)
	}
	wB, err := r.PushBlobChunkedResume(ctx, repo, id, offB, 0)
	if err != nil {
		env.Failf("C04/resume/unexpected-failure", "second PushBlobChunkedResume(offset %d) failed: %v", offB, err)
	}
	if creatorWrites {
		wB, offB = w0, n // the creator has written exactly the base so far
	}
	first, second, offSecond := wA, wB, offB
	if c.Bool("b-writes-first", 1, 2) {
		first, second, offSecond = wB, wA, offA
	}
	if kind == "mem" && offSecond == -1 {
		// Called directly, a writer resumed with -1 has no offset of its own ("continue
		// where the last write left off"): whatever it writes is appended, by
		// definition at the right place. Only over HTTP does -1 turn into the offset
		// the registry reported at resume time. Nothing to be overtaken here.
		env.Op("overtaken:not-applicable")
		return
	}
	x := c.Bytes("x", c.Range("xlen", 1, 40))
	y := c.Bytes("y", c.Range("ylen", 1, 40))
	if c.Bool("equal-sized-chunks", 1, 2) {
		y = c.Bytes("y.same", len(x)) // a request and its retry
	}
	if _, err := first.Write(x); err != nil {
		env.Failf("C04/Write/unexpected-failure", "Write at the right offset %d failed: %v", n, err)
	}
	if err := first.Close(); err != nil {
		env.Failf("C04/Close/unexpected-failure", "Close failed although no fault was injected: %v", err)
	}
	env.Op("overtaken:" + kind)
	env.Sample("%s: upload of %d bytes, writers resumed at offsets %d and %d; one writes %d bytes, then the other writes %d", kind, n, offA, offB, len(x), len(y))
	held := func() int64 {
		ids := spy.between(0, -1, repo)
		if len(ids) != 1 {
			core.Harnessf("the backend started %d uploads, want 1", len(ids))
		}
		return backendUploadSize(ctx, mem, repo, ids[0])
	}
	// (the registry is not asked for its size here: on the in-memory registry the
	// question itself is a resume and would interfere with the offsets under test)
	before := n + int64(len(x))
	_, werr := second.Write(y)
	perr := werr
	if perr == nil {
		if c.Bool("finish-with-commit", 1, 3) {
			_, perr = second.Commit(reg.Sha256(append(append(append([]byte{}, base...), x...), y...)))
		} else {
			perr = second.Close()
		}
	}
	if werr != nil && c.Bool("refused-writer-tries-again", 1, 2) {
		// a refused writer stays refused: nothing it sends later may get through either
		z := c.Bytes("z", c.Range("zlen", 1, 40))
		if _, err := second.Write(z); err == nil && kind == "mem" {
			env.Failf("C04/stale/accepted", "a writer whose first write (for offset %d, the registry held %d) had been refused wrote %d more bytes and they were accepted", n, before, len(z))
		}
	}
	after := held()
	env.Logf("second writer (resumed at %d when the registry held %d): write/flush -> %v; registry holds %d -> %d", offSecond, n, perr, before, after)
	if perr == nil {
		env.Failf("C04/stale/accepted", "a writer resumed at offset %d (the registry held %d bytes then) sent %d bytes after another writer had added %d: accepted, the registry now holds %d bytes", offSecond, n, len(y), len(x), after)
	}
	if after != before {
		env.Failf("C04/stale/altered", "a refused write at the overtaken offset %d changed the upload from %d to %d bytes", n, before, after)
	}
	if !errors.Is(perr, ociregistry.ErrRangeInvalid) {
		env.Failf("C04/stale/wrong-error", "data at the overtaken offset %d (registry holds %d) was refused with %s, want RANGE_INVALID: %v", n, before, reg.CodeOf(perr), perr)
	}
	// the upload can still be completed with exactly base+x
	want := append(append([]byte{}, base...), x...)
	w3, err := r.PushBlobChunkedResume(ctx, repo, id, -1, 0)
	if before == 1 {
		w3, err = r.PushBlobChunkedResume(ctx, repo, id, 1, 0)
	}
	if err != nil {
		env.Failf("C04/resume/unexpected-failure", "PushBlobChunkedResume after the refused write failed: %v", err)
	}
	if _, err := w3.Commit(reg.Sha256(want)); err != nil {
		env.Failf("C04/Commit/unexpected-failure", "Commit of the %d bytes the registry accepted failed: %v", len(want), err)
	}
	res := reg.Exec(ctx, r, &reg.Op{Kind: reg.GetBlob, Repo: repo, Digest: reg.Sha256(want), StopAfter: -1, ContentFault: -1}, nil)
	if res.Err != nil || res.ReadErr != nil || !bytes.Equal(res.Data, want) {
		env.Failf("C04/final/bytes", "after commit the blob reads as %d bytes (err %v / %v), want the %d bytes accepted", len(res.Data), res.Err, res.ReadErr, len(want))
	}
}

// c04concurrentPatches: several clients send chunks to one upload at the same time
// (duplicates of a request, or competing writers), each labelled with the offset its
// sender believes in. Whatever the interleaving of the server's handlers, the upload
// must end up as the accepted chunks in offset order, each accepted chunk sitting
// exactly at the offset it was sent for, and every other chunk refused with 416.
func c04concurrentPatches(env *core.Env) {
	c := env.C
	ctx := context.Background()
	mem := ocimem.New()
	// what the backend's writers accepted, in the order they accepted it (the
	// simulator runs one task at a time, so this is the upload's content)
	var shadow []byte
	backend := &ociregistry.Funcs{
		PushBlobChunkedResume_: func(ctx context.Context, repo, id string, offset int64, chunkSize int) (ociregistry.BlobWriter, error) {
			w, err := mem.PushBlobChunkedResume(ctx, repo, id, offset, chunkSize)
			if err != nil {
				return nil, err
			}
			return &shadowWriter{BlobWriter: w, shadow: &shadow}, nil
		},
	}
	spy := &uploadSpy{Interface: mem}
	backend.PushBlobChunked_ = spy.PushBlobChunked
	handler := ociserver.New(backend, nil)
	repo := repoNames[c.Int("repo", len(repoNames))]
	L := []int{1, 3, 17}[c.Int("chunklen", 3)]
	base := c.Bytes("base", c.Int("basechunks", 3)*L)
	// The upload is started through the server, so that its id is whatever this server
	// hands to clients; the base content goes into the backend directly (the shadow
	// copy is of what the competing requests add).
	cl0, err := newClient(&simnet.Transport{Env: env, Handler: handler}, 0)
	if err != nil {
		core.Harnessf("%v", err)
	}
	w0, err := cl0.PushBlobChunked(ctx, repo, 0)
	if err != nil {
		env.Failf("C04/start/unexpected-failure", "PushBlobChunked failed: %v", err)
	}
	id := w0.ID()
	if ids := spy.between(0, -1, repo); len(ids) != 1 {
		core.Harnessf("the backend started %d uploads, want 1", len(ids))
	} else if len(base) > 0 {
		wb, err := mem.PushBlobChunkedResume(ctx, repo, ids[0], 0, 0)
		if err != nil {
			core.Harnessf("%v", err)
		}
		if _, err := wb.Write(base); err != nil {
			core.Harnessf("%v", err)
		}
	}
	ntasks := c.Range("ntasks", 2, 4)
	type sent struct {
		off    int64
		data   []byte
		err    error
		viaPUT bool
	}
	plans := make([]*sent, ntasks)
	for t := range plans {
		// offsets around the current end, so that some collide and some are stale or premature
		off := int64(len(base)) + int64(c.Int("offset.chunks", 3)*L)
		if c.Bool("offset.stale", 1, 6) && len(base) > 0 {
			off = int64(len(base)) - int64(L)
		}
		if c.Bool("offset.inside-a-chunk", 1, 3) {
			// where another request's body has got to, if it trickles in
			off = int64(len(base)) + int64(c.Int("offset.bytes", 2*L+1))
		}
		data := bytes.Repeat([]byte{byte('A' + t)}, L)
		plans[t] = &sent{off: off, data: data}
		// a chunk meant for the end of what is there may be the last one: sent with the
		// closing PUT, which names the digest of everything up to and including it
		if off == int64(len(base)) && c.Bool("via-closing-put", 1, 3) {
			plans[t].viaPUT = true
		}
	}
	trickle := c.Bool("trickling-bodies", 1, 2)
	trs := make([]*simnet.Transport, ntasks)
	sched := env.Sched
	for t := 0; t < ntasks; t++ {
		t := t
		sched.Spawn(fmt.Sprintf("client%d", t), func() {
			// (a request body that trickles in byte by byte reaches the backend writer
			// as many small writes, between which the other requests' handlers run)
			tr := &simnet.Transport{Env: env, Handler: handler, OneByteReads: trickle, Record: true}
			trs[t] = tr
			cl, err := newClient(tr, 0)
			if err != nil {
				core.Harnessf("%v", err)
			}
			p := plans[t]
			w, err := cl.PushBlobChunkedResume(ctx, repo, id, p.off, 0)
			if err != nil {
				p.err = err
				return
			}
			sched.Yield()
			if _, err := w.Write(p.data); err != nil {
				p.err = err
				return
			}
			if p.viaPUT {
				_, p.err = w.Commit(reg.Sha256(append(append([]byte{}, base...), p.data...)))
				return
			}
			p.err = w.Close()
		})
	}
	env.Finally(func() {
		var accepted []*sent
		for t, p := range plans {
			env.Op(fmt.Sprintf("patch@%d:%v", (p.off-int64(len(base)))/int64(L), p.err == nil))
			env.Logf("client %d: %d bytes %q at offset %d -> %v", t, len(p.data), p.data[:1], p.off, p.err)
			env.Sample("client %d: chunk at offset %d (upload held %d) -> %v", t, p.off, len(base), p.err)
			if p.err == nil {
				accepted = append(accepted, p)
			} else if p.viaPUT && errors.Is(p.err, ociregistry.ErrDigestInvalid) {
				// judged below, once it is known where this request's bytes went
			} else if errors.Is(p.err, ociregistry.ErrBlobUploadUnknown) && slices.ContainsFunc(plans, func(q *sent) bool { return q.viaPUT && q.err == nil }) {
				// a closing request got through first: the session may be over, and a
				// registry may say so to whatever arrives afterwards
				env.Probe("c04:chunk-after-the-session-ended")
			} else if !errors.Is(p.err, ociregistry.ErrRangeInvalid) {
				env.Failf("C04/concurrent/wrong-error", "a chunk sent at offset %d was refused with %s, want RANGE_INVALID: %v", p.off, reg.CodeOf(p.err), p.err)
			}
		}
		// Every byte the upload took from a client sits at the offset it was sent for:
		// client t's bytes (all the same letter) form one run that begins at its offset
		// (a refused request may have had a first part taken while that was still the
		// end of the upload), the whole chunk if and only if the request succeeded.
		want := append(append([]byte{}, base...), shadow...)
		committed := false
		for _, p := range plans {
			committed = committed || (p.viaPUT && p.err == nil)
		}
		for t, p := range plans {
			if committed {
				// Once the session has been committed, what another request on its id finds -
				// the finished session or a fresh one - is the registry's business, and the
				// record of accepted bytes may span two sessions, so that positions in it
				// mean nothing: in such a run only this is asked, that what a successful
				// closing PUT names is there.
				if p.viaPUT && p.err == nil {
					content := append(append([]byte{}, base...), p.data...)
					if _, rerr := mem.ResolveBlob(ctx, repo, reg.Sha256(content)); rerr != nil {
						env.Failf("C04/concurrent/closing-put-ok-but-no-blob", "client %d's closing PUT succeeded but the blob it names is not there: %v", t, rerr)
					}
				}
				continue
			}
			letter := p.data[0]
			first, n := -1, 0
			for i := len(base); i < len(want); i++ {
				if want[i] == letter {
					if first < 0 {
						first = i
					}
					if i != first+n {
						env.Failf("C04/concurrent/accepted-at-wrong-offset", "client %d sent %d bytes for offset %d; the upload took them in separate pieces (%q after the first %d bytes): part of its data went in at an offset it was not sent for", t, len(p.data), p.off, want[len(base):], len(base))
					}
					n++
				}
			}
			if n > 0 && int64(first) != p.off {
				env.Failf("C04/concurrent/accepted-at-wrong-offset", "client %d sent its chunk for offset %d but the upload took it at offset %d (content after the first %d bytes: %q)", t, p.off, first, len(base), want[len(base):])
			}
			if p.err == nil && n != len(p.data) {
				env.Failf("C04/concurrent/accepted-but-incomplete", "client %d's request succeeded but only %d of its %d bytes are in the upload", t, n, len(p.data))
			}
			if p.err != nil && n == len(p.data) {
				env.Probe("c04:refused-after-all-bytes-taken")
			}
			if p.viaPUT {
				// One request: its data goes in at its offset and the content up to there is
				// committed, or it is refused. Whichever requests came before or after it.
				content := append(append([]byte{}, base...), p.data...)
				_, rerr := mem.ResolveBlob(ctx, repo, reg.Sha256(content))
				switch {
				case p.err == nil && rerr != nil:
					env.Failf("C04/concurrent/closing-put-ok-but-no-blob", "client %d's closing PUT succeeded but the blob it names is not there: %v", t, rerr)
				case errors.Is(p.err, ociregistry.ErrDigestInvalid) && n == len(p.data) && int64(first) == p.off:
					env.Failf("C04/concurrent/closing-put-not-atomic", "client %d's closing PUT (%d bytes for offset %d, digest of the %d bytes up to their end) had all its bytes taken at that offset and was then refused as DIGEST_INVALID: another request's chunk got in between its data and its commit (upload after the first %d bytes: %q). No order of the requests explains the answers: the chunk behind it was accepted, so it came later, and then the commit should have found what the digest names", t, len(p.data), p.off, len(content), len(base), want[len(base):])
				case errors.Is(p.err, ociregistry.ErrDigestInvalid):
					env.Failf("C04/concurrent/wrong-error", "client %d's closing PUT for offset %d was refused with DIGEST_INVALID although its data did not go in at that offset: %v", t, p.off, p.err)
				}
			}
		}
		_ = accepted
		// What an accepted PATCH says the upload holds is what it held when that
		// request's data had gone in, not what another request added since.
		for t, p := range plans {
			if p.err != nil || trs[t] == nil {
				continue
			}
			for _, e := range trs[t].Log {
				if e.Method != "PATCH" || e.Status != 202 {
					continue
				}
				want := fmt.Sprintf("0-%d", p.off+int64(len(p.data))-1)
				if got := e.RespHeader.Get("Range"); got != want {
					env.Failf("C04/concurrent/range-of-another-request", "client %d's PATCH of %d bytes for offset %d was accepted with Range: %s, want %s (what the upload held once its own data was in)", t, len(p.data), p.off, got, want)
				}
			}
		}
		for _, p := range plans {
			if p.viaPUT && p.err == nil {
				// the session has been committed: whether it can still be asked for its
				// size is the registry's business (the blob was looked for above)
				return
			}
		}
		w, err := mem.PushBlobChunkedResume(ctx, repo, spy.between(0, -1, repo)[0], -1, 0)
		if err != nil {
			core.Harnessf("%v", err)
		}
		if w.Size() != int64(len(want)) {
			env.Failf("C04/concurrent/size", "the backend writers accepted %d bytes on top of %d but the upload now holds %d bytes", len(shadow), len(base), w.Size())
		}
		if _, err := w.Commit(reg.Sha256(want)); err != nil {
			env.Failf("C04/concurrent/content", "the upload does not hold the bytes its writers accepted, in the order they accepted them: commit with their digest failed: %v", err)
		}
	})
}

type shadowWriter struct {
	ociregistry.BlobWriter
	shadow *[]byte
}

func (w *shadowWriter) Write(p []byte) (int, error) {
	n, err := w.BlobWriter.Write(p)
	*w.shadow = append(*w.shadow, p[:n]...)
	return n, err
}

// c04premature: a writer resumed at an offset the registry has not reached yet. Its data
// is refused (416) when it is sent - with the closing PUT, or with a PATCH - and must
// not get into the upload later either: not when the registry has meanwhile reached that
// offset through another writer and the refused writer is then closed or used again.
func c04premature(env *core.Env, kind string) {
	c := env.C
	ctx := context.Background()
	st := buildStack(env, &stackOpts{Kind: kind})
	r := st.Reg
	repo := repoNames[c.Int("repo", len(repoNames))]
	base := c.Bytes("base", []int{0, 2, 5, 300}[c.Int("baselen", 4)])
	x := c.Bytes("x", c.Range("xlen", 1, 40))
	y := c.Bytes("y", c.Range("ylen", 1, 40))
	w0, err := r.PushBlobChunked(ctx, repo, 0)
	if err != nil {
		env.Failf("C04/start/unexpected-failure", "PushBlobChunked failed: %v", err)
	}
	if len(base) > 0 {
		if _, err := w0.Write(base); err != nil {
			env.Failf("C04/Write/unexpected-failure", "Write failed although no fault was injected: %v", err)
		}
	}
	if err := w0.Close(); err != nil {
		env.Failf("C04/Close/unexpected-failure", "Close failed although no fault was injected: %v", err)
	}
	id := w0.ID()
	n := int64(len(base))
	held := func() int64 {
		ids := st.Uploads.between(0, -1, repo)
		if len(ids) != 1 {
			core.Harnessf("the backend started %d uploads, want 1", len(ids))
		}
		return backendUploadSize(ctx, st.Mem, repo, ids[0])
	}
	// the premature writer: it believes the registry holds base+x already
	ahead := n + int64(len(x))
	p, err := r.PushBlobChunkedResume(ctx, repo, id, ahead, 0)
	if err != nil {
		env.Failf("C04/resume/unexpected-failure", "PushBlobChunkedResume(offset %d) failed: %v", ahead, err)
	}
	_, werr := p.Write(y)
	perr := werr
	how := "Write"
	if perr == nil {
		if c.Bool("send-with-commit", 1, 2) {
			how = "Commit"
			_, perr = p.Commit(reg.Sha256(append(append(append([]byte{}, base...), x...), y...)))
		} else {
			how = "Close"
			perr = p.Close()
		}
	}
	env.Op("premature:" + how)
	if perr == nil {
		env.Failf("C04/stale/accepted", "%d bytes sent for offset %d were accepted (%s) although the registry holds %d bytes", len(y), ahead, how, n)
	}
	if !errors.Is(perr, ociregistry.ErrRangeInvalid) {
		env.Failf("C04/stale/wrong-error", "data for offset %d (registry holds %d) was refused with %s, want RANGE_INVALID: %v", ahead, n, reg.CodeOf(perr), perr)
	}
	if got := held(); got != n {
		env.Failf("C04/stale/altered", "a refused write for offset %d changed the upload from %d to %d bytes", ahead, n, got)
	}
	// another writer takes the upload to exactly that offset
	q, err := r.PushBlobChunkedResume(ctx, repo, id, n, 0)
	if err != nil {
		env.Failf("C04/resume/unexpected-failure", "PushBlobChunkedResume(offset %d) failed: %v", n, err)
	}
	if _, err := q.Write(x); err != nil {
		env.Failf("C04/Write/unexpected-failure", "Write at the right offset %d failed: %v", n, err)
	}
	if err := q.Close(); err != nil {
		env.Failf("C04/Close/unexpected-failure", "Close failed although no fault was injected: %v", err)
	}
	if got := held(); got != ahead {
		env.Failf("C04/Close/not-flushed", "after a successful Close the registry holds %d bytes, the caller wrote %d", got, ahead)
	}
	// ... and the refused writer is tidied up, or used again. Whatever these calls
	// answer, the data that was refused is not what the caller has written since.
	switch c.Int("afterwards", 3) {
	case 0:
		p.Close()
	case 1:
		p.Cancel()
		p.Close()
	case 2:
		p.Close()
		p.Close()
	}
	env.Sample("%s: upload of %d bytes; %d bytes sent for offset %d refused at %s; another writer adds %d bytes; the refused writer is closed", kind, n, len(y), ahead, how, len(x))
	if got := held(); got != ahead {
		env.Failf("C04/stale/altered-later", "%d bytes for offset %d were refused (%s: 416) when the registry held %d; after another writer had taken it to %d, closing the refused writer made it %d bytes: the refused data got in after all", len(y), ahead, how, n, ahead, got)
	}
	// the upload completes as base+x
	want := append(append([]byte{}, base...), x...)
	w3, err := r.PushBlobChunkedResume(ctx, repo, id, ahead, 0)
	if err != nil {
		env.Failf("C04/resume/unexpected-failure", "PushBlobChunkedResume after the refused write failed: %v", err)
	}
	if _, err := w3.Commit(reg.Sha256(want)); err != nil {
		env.Failf("C04/Commit/unexpected-failure", "Commit of the %d bytes the registry accepted failed: %v", len(want), err)
	}
}
