package props

import (
	"context"
	"encoding/base64"
	"encoding/json"
	"fmt"
	"io"
	"net/http"
	"net/url"
	"sort"
	"strings"
	"time"

	"cuelabs.dev/go/oci/ociregistry/ociauth"

	"verifsim/core"
	"verifsim/simnet"
)

// The auth world (C10, C11): the real ociauth transport over the simulated
// network, whose peers are fake registries (which demand a bearer token covering
// the request's scope, or Basic credentials) and fake token servers. Everything
// the transport sends is recorded by destination; every token issued is recorded.

// nscope is the naive scope model: a set of "type\x00resource\x00action" triples,
// independent of ociauth.Scope.
type nscope map[string]bool

func parseNaive(s string) nscope {
	out := nscope{}
	for _, f := range strings.Fields(s) {
		parts := strings.SplitN(f, ":", 3)
		if len(parts) != 3 {
			out[f+"\x00\x00"] = true
			continue
		}
		for _, a := range strings.Split(parts[2], ",") {
			out[parts[0]+"\x00"+parts[1]+"\x00"+a] = true
		}
	}
	return out
}

func (a nscope) contains(b nscope) bool {
	for k := range b {
		if !a[k] {
			return false
		}
	}
	return true
}

func (a nscope) union(b nscope) nscope {
	out := nscope{}
	for k := range a {
		out[k] = true
	}
	for k := range b {
		out[k] = true
	}
	return out
}

func (a nscope) equal(b nscope) bool { return a.contains(b) && b.contains(a) }

func (a nscope) String() string {
	var ks []string
	for k := range a {
		ks = append(ks, strings.ReplaceAll(k, "\x00", ":"))
	}
	sort.Strings(ks)
	return "{" + strings.Join(ks, " ") + "}"
}

type acquisition struct {
	requested nscope
	callID    int
	expires   time.Time // as the token response said
}

type issuedToken struct {
	token      string
	host       string // registry the realm belongs to
	requested  nscope
	reqText    string
	granted    nscope
	issuedAt   time.Time
	revoked    bool  // the registry has answered 401 to this token and will go on doing so
	revokedIn  int   // ... since this caller request
	revokedSeq int64 // ... at this point of the simulation
	// acquisitions: one entry per token response that carried this text (more than one
	// only when the token server hands the same text out again)
	acquisitions []acquisition
	refused      bool          // the registry has answered 401 to a request carrying this token (for whatever reason)
	lifetime     time.Duration // as the client must assume it (60 s when absent)
	callID       int
}

type outReq struct {
	seq    int
	dest   string
	kind   string // "registry" | "realm" | "foreign"
	method string
	url    string
	header http.Header
	body   string
	callID int
	at     time.Time
	bearer string
	basicU string
	basicP string
	status int
	demand string
	// challengeScope: the scope text of the Bearer challenge this request was answered with
	challengeScope string
	challenged     bool
	seqNo          int64
}

type regHost struct {
	name      string
	realmHost string
	realmURL  string
	mode      string // bearer | basic | none | both | unknown-scheme | malformed
	user      string
	pass      string
	refresh   string
	static    string
	// token server behaviour
	grant        string // all | subset | refuse-wide
	noPOST       bool   // 404 on POST
	lifetimes    []int  // expires_in values drawn per token (0 = absent)
	tokenField   string // token | access_token | both
	giveRefresh  bool
	failure      string // "" | status-500 | status-403 | bad-json | no-token | status-404 | redirect-* (3xx with a Location)
	redirectTo   string // where a redirecting token server points
	challengeMut string // "" | superset | reordered | duplicate
	spurious401  int    // answer 401 to this many otherwise valid bearer requests
	sameToken    bool   // the token server hands out one token text for as long as that token is good (a token per client, not per request)
	curTok       string
	revokeRate   int // > 0: each valid bearer request revokes its token for good with probability 1/revokeRate
	// bearerDeny: what the 401 to a request that carried a bearer token looks like
	// ("" = the usual challenge, "none" = no Www-Authenticate at all, "unknown" =
	// only schemes the client does not speak, "malformed")
	bearerDeny   string
	quotedRealm  bool
	requireCreds bool
	service      string
}

type authWorld struct {
	env      *core.Env
	c        *core.Choices
	hosts    map[string]*regHost
	realms   map[string]*regHost
	tr       *simnet.Transport
	issued   map[string]*issuedToken
	callHost map[int]string // registry host each caller request was addressed to
	out      []*outReq
	ntok     int
	// namedRealms[H]: realm hosts that registry H has named in a Bearer challenge so far;
	// basicChallenged[H]: H has issued a Basic challenge so far.
	namedRealms     map[string]map[string]bool
	namedRealmURLs  map[string]map[string]bool // full realm URLs named by each registry
	basicChallenged map[string]bool
	rt              http.RoundTripper
	latency         func() time.Duration
	// hostHeader, if set, chooses the Host field of a call's request (default: the URL's host)
	hostHeader func(urlHost string) string
}

type callIDKey struct{}

// desiredEverything stands for ociauth.UnlimitedScope() as a caller's desired scope:
// it cannot be asked for in scope syntax and so adds nothing to a token request.
const desiredEverything = "(everything)"

func (w *authWorld) now() time.Time { return time.Now() }

func newAuthWorld(env *core.Env, hosts []*regHost) *authWorld {
	w := &authWorld{env: env, c: env.C, hosts: map[string]*regHost{}, realms: map[string]*regHost{}, issued: map[string]*issuedToken{},
		namedRealms: map[string]map[string]bool{}, namedRealmURLs: map[string]map[string]bool{}, basicChallenged: map[string]bool{}}
	w.tr = &simnet.Transport{Env: env, Hosts: map[string]http.Handler{}}
	for _, h := range hosts {
		h := h
		w.hosts[h.name] = h
		w.realms[h.realmHost] = h
		w.tr.Hosts[h.name] = http.HandlerFunc(func(rw http.ResponseWriter, req *http.Request) { w.serveRegistry(h, rw, req) })
		w.tr.Hosts[h.realmHost] = http.HandlerFunc(func(rw http.ResponseWriter, req *http.Request) { w.serveToken(h, rw, req) })
	}
	w.tr.Handler = http.HandlerFunc(func(rw http.ResponseWriter, req *http.Request) { rw.WriteHeader(200) }) // foreign hosts
	w.tr.Observe = func(req *http.Request, body []byte) {
		o := &outReq{seq: len(w.out), dest: req.URL.Host, method: req.Method, url: req.URL.String(), header: req.Header.Clone(), body: string(body), at: w.now(), demand: req.Header.Get("X-Demand")}
		o.callID, _ = req.Context().Value(callIDKey{}).(int)
		switch {
		case w.hosts[o.dest] != nil:
			o.kind = "registry"
		case w.realms[o.dest] != nil:
			o.kind = "realm"
			// The realm a challenge names is a URL. The same host name under another
			// scheme is another port; only the step up from http to https on the same
			// name stays with the same party for certain (and exposes nothing).
			if ru, err := url.Parse(w.realms[o.dest].realmURL); err == nil && ru.Scheme != req.URL.Scheme && !(ru.Scheme == "http" && req.URL.Scheme == "https") {
				o.kind = "foreign"
			}
		default:
			o.kind = "foreign"
		}
		if a := req.Header.Get("Authorization"); strings.HasPrefix(a, "Bearer ") {
			o.bearer = strings.TrimPrefix(a, "Bearer ")
		} else if strings.HasPrefix(a, "Basic ") {
			if raw, err := base64.StdEncoding.DecodeString(strings.TrimPrefix(a, "Basic ")); err == nil {
				o.basicU, o.basicP, _ = strings.Cut(string(raw), ":")
			}
		}
		w.out = append(w.out, o)
		req.Header.Set("X-Sim-Seq", fmt.Sprint(o.seq))
	}
	return w
}

func (w *authWorld) outFor(req *http.Request) *outReq {
	var n int
	if _, err := fmt.Sscan(req.Header.Get("X-Sim-Seq"), &n); err != nil || n < 0 || n >= len(w.out) {
		return nil
	}
	return w.out[n]
}

func quoteParam(s string) string {
	return `"` + strings.NewReplacer(`\`, `\\`, `"`, `\"`).Replace(s) + `"`
}

func (w *authWorld) challenge(h *regHost, demand string) []string {
	scopeText := demand
	switch h.challengeMut {
	case "superset":
		scopeText = demand + " repository:extra/repo:pull"
	case "reordered":
		// same set, different text: actions reversed
		var fs []string
		for _, f := range strings.Fields(demand) {
			p := strings.SplitN(f, ":", 3)
			if len(p) == 3 {
				as := strings.Split(p[2], ",")
				for i, j := 0, len(as)-1; i < j; i, j = i+1, j-1 {
					as[i], as[j] = as[j], as[i]
				}
				f = p[0] + ":" + p[1] + ":" + strings.Join(as, ",")
			}
			fs = append([]string{f}, fs...)
		}
		scopeText = strings.Join(fs, " ")
	case "duplicate":
		scopeText = demand + " " + demand
	case "more-actions":
		// a strict superset of the demand on the same repositories, written in a
		// non-canonical order ("push,pull"): the union with the required scope adds
		// nothing, so the token request must carry exactly this text
		var fs []string
		for _, f := range strings.Fields(demand) {
			p := strings.SplitN(f, ":", 3)
			if len(p) == 3 && p[0] == "repository" && p[2] == "pull" {
				f = p[0] + ":" + p[1] + ":push,pull"
			}
			fs = append(fs, f)
		}
		scopeText = strings.Join(fs, " ")
	}
	realm := h.realmURL
	bearer := fmt.Sprintf(`Bearer realm=%s,service=%s,scope=%s`, quoteParam(realm), quoteParam(h.service), quoteParam(scopeText))
	if scopeText == "" {
		bearer = fmt.Sprintf(`Bearer realm=%s,service=%s`, quoteParam(realm), quoteParam(h.service))
	}
	switch h.mode {
	case "bearer":
		return []string{bearer}
	case "bearer-or-basic":
		if w.c.Bool("challenge.basic-this-time", 1, 2) {
			return []string{`Basic realm="http://basic-realm.example/token"`}
		}
		return []string{bearer}
	case "basic":
		return []string{`Basic realm="registry"`}
	case "both":
		return []string{bearer, `Basic realm="registry"`}
	case "unknown-scheme":
		return []string{`Digest realm="x", nonce="abc"`, `Negotiate`}
	case "malformed":
		return []string{`Bearer realm="unterminated`, `Bearer realm=`, `=`}
	case "bearer-no-realm":
		return []string{`Bearer service="x",scope=` + quoteParam(scopeText)}
	}
	return nil
}

// serveRegistry: the fake registry. The scope a request needs is in its X-Demand
// header (set by the harness on the caller's request).
func (w *authWorld) serveRegistry(h *regHost, rw http.ResponseWriter, req *http.Request) {
	o := w.outFor(req)
	demand := parseNaive(req.Header.Get("X-Demand"))
	deny := func() {
		chals := w.challenge(h, req.Header.Get("X-Demand"))
		if strings.HasPrefix(req.Header.Get("Authorization"), "Bearer ") {
			switch h.bearerDeny {
			case "none":
				chals = nil
			case "unknown":
				chals = []string{`Negotiate`, `Digest realm="x", nonce="abc"`}
			case "malformed":
				chals = []string{`Bearer realm="unterminated`}
			}
		}
		for _, c := range chals {
			rw.Header().Add("Www-Authenticate", c)
			if strings.HasPrefix(c, "Basic") {
				w.basicChallenged[h.name] = true
			}
			if strings.HasPrefix(c, "Bearer ") && h.mode != "malformed" && h.mode != "bearer-no-realm" {
				if u, err := url.Parse(h.realmURL); err == nil {
					if w.namedRealms[h.name] == nil {
						w.namedRealms[h.name] = map[string]bool{}
					}
					w.namedRealms[h.name][u.Host] = true
					if w.namedRealmURLs[h.name] == nil {
						w.namedRealmURLs[h.name] = map[string]bool{}
					}
					w.namedRealmURLs[h.name][h.realmURL] = true
				}
			}
			if o != nil && strings.HasPrefix(c, "Bearer ") && h.mode != "malformed" {
				o.challenged = true
				if i := strings.Index(c, `scope="`); i >= 0 {
					o.challengeScope = strings.TrimSuffix(c[i+7:], `"`)
				}
			}
		}
		rw.Header().Set("Content-Type", "application/json")
		rw.WriteHeader(401)
		rw.Write([]byte(`{"errors":[{"code":"UNAUTHORIZED","message":"authentication required"}]}`))
		if o != nil {
			o.status = 401
		}
	}
	ok := func() {
		rw.WriteHeader(200)
		rw.Write([]byte("ok"))
		if o != nil {
			o.status = 200
		}
	}
	if h.mode == "none" {
		ok()
		return
	}
	auth := req.Header.Get("Authorization")
	switch {
	case strings.HasPrefix(auth, "Bearer "):
		tok := strings.TrimPrefix(auth, "Bearer ")
		if tok == h.static && h.static != "" {
			ok()
			return
		}
		it := w.issued[tok]
		if it != nil {
			defer func() {
				if o != nil && o.status == 401 {
					it.refused = true
				}
			}()
		}
		if it == nil || it.host != h.name || !w.now().Before(it.issuedAt.Add(it.lifetime)) || !it.granted.contains(demand) {
			deny()
			return
		}
		if it.revoked {
			deny()
			return
		}
		if h.revokeRate > 0 && w.c.Bool("registry.revokes?", 1, h.revokeRate) {
			it.revoked = true
			if o != nil {
				it.revokedIn = o.callID
			}
			if w.env.Sched != nil {
				it.revokedSeq = w.env.Sched.Seq()
			}
			w.env.Fault("registry-revokes-token")
			deny()
			return
		}
		if h.spurious401 > 0 {
			h.spurious401--
			w.env.Fault("registry-401-on-valid-token")
			deny()
			return
		}
		ok()
	case strings.HasPrefix(auth, "Basic "):
		if (h.mode == "basic" || h.mode == "both" || h.mode == "bearer-or-basic") && o != nil && o.basicU == h.user && o.basicP == h.pass && h.user != "" {
			ok()
			return
		}
		deny()
	default:
		deny()
	}
}

// serveToken: the fake token server of registry h.
func (w *authWorld) serveToken(h *regHost, rw http.ResponseWriter, req *http.Request) {
	o := w.outFor(req)
	fail := func(status int, body string) {
		rw.Header().Set("Content-Type", "application/json")
		rw.WriteHeader(status)
		rw.Write([]byte(body))
		if o != nil {
			o.status = status
		}
	}
	var scopeText string
	var scopes []string
	authed := false
	switch req.Method {
	case "POST":
		if h.noPOST {
			fail(404, `{"errors":[{"code":"NOT_FOUND"}]}`)
			return
		}
		req.ParseForm()
		scopeText = req.PostForm.Get("scope")
		scopes = strings.Fields(scopeText)
		if rt := req.PostForm.Get("refresh_token"); rt != "" && (rt == h.refresh || strings.HasPrefix(rt, "rt-issued-"+h.name)) {
			authed = true
		}
	case "GET":
		scopes = req.URL.Query()["scope"]
		scopeText = strings.Join(scopes, " ")
		if o != nil && o.basicU == h.user && o.basicP == h.pass && h.user != "" {
			authed = true
		}
	default:
		fail(405, `{}`)
		return
	}
	if h.requireCreds && !authed {
		fail(401, `{"errors":[{"code":"UNAUTHORIZED","message":"bad credentials"}]}`)
		return
	}
	if strings.HasPrefix(h.failure, "redirect-") {
		// the realm answers with a redirect: whatever the client does with it, the
		// credentials in this request belong with the realm the registry named
		status := map[string]int{"redirect-301": 301, "redirect-302": 302, "redirect-303": 303, "redirect-307": 307, "redirect-308": 308}[h.failure]
		w.env.Fault("token-server-redirects")
		rw.Header().Set("Location", h.redirectTo)
		rw.WriteHeader(status)
		if o != nil {
			o.status = status
		}
		return
	}
	switch h.failure {
	case "status-500":
		w.env.Fault("token-server-500")
		fail(500, `{"errors":[{"code":"UNKNOWN"}]}`)
		return
	case "status-403":
		w.env.Fault("token-server-403")
		fail(403, `{"errors":[{"code":"DENIED"}]}`)
		return
	case "status-404":
		w.env.Fault("token-server-404")
		fail(404, `not here`)
		return
	case "bad-json":
		w.env.Fault("token-server-bad-json")
		fail(200, `{"token": "unterminated`)
		return
	case "no-token":
		w.env.Fault("token-server-no-token")
		fail(200, `{"expires_in": 60}`)
		return
	}
	requested := parseNaive(scopeText)
	granted := requested
	switch h.grant {
	case "subset":
		granted = nscope{}
		for k := range requested {
			if !strings.HasSuffix(k, "\x00push") || strings.Contains(k, "\x00foo\x00") {
				granted[k] = true
			}
		}
	case "refuse-wide":
		// refuses anything beyond two resource scopes
		if len(strings.Fields(scopeText)) > 1+w.c.Int("token.widthlimit", 2) {
			w.env.Fault("token-server-refuses-wide-scope")
			fail(401, `{"errors":[{"code":"UNAUTHORIZED","message":"scope too wide"}]}`)
			return
		}
	}
	if h.sameToken {
		if cur := w.issued[h.curTok]; cur != nil && !cur.revoked && w.now().Before(cur.issuedAt.Add(cur.lifetime)) {
			// the same text again, good for what was asked now as well and for another while
			acq := acquisition{requested: requested, expires: w.now().Add(300 * time.Second)}
			if o != nil {
				acq.callID = o.callID
			}
			cur.acquisitions = append(cur.acquisitions, acq)
			cur.requested = cur.requested.union(requested)
			cur.granted = cur.granted.union(granted)
			cur.reqText = scopeText
			cur.lifetime = w.now().Sub(cur.issuedAt) + 300*time.Second
			resp := map[string]any{"token": cur.token, "expires_in": 300}
			if o != nil {
				o.status = 200
			}
			data, _ := json.Marshal(resp)
			rw.Header().Set("Content-Type", "application/json")
			rw.WriteHeader(200)
			rw.Write(data)
			w.env.Probe("auth:same-token-text-issued-again")
			return
		}
	}
	w.ntok++
	// A token belongs to the registry whose call asked for it. (That is the token
	// server's own registry unless another realm redirected the client here.)
	owner := h.name
	if o != nil && w.callHost[o.callID] != "" {
		owner = w.callHost[o.callID]
	}
	tok := fmt.Sprintf("tok-%s-%d", owner, w.ntok)
	life := h.lifetimes[w.c.Int("token.lifetime", len(h.lifetimes))]
	resp := map[string]any{}
	switch h.tokenField {
	case "token":
		resp["token"] = tok
	case "access_token":
		resp["access_token"] = tok
	default:
		resp["token"], resp["access_token"] = tok, tok
	}
	if life > 0 {
		resp["expires_in"] = life
	}
	if h.giveRefresh && req.Method == "POST" {
		resp["refresh_token"] = fmt.Sprintf("rt-issued-%s-%d", h.name, w.ntok)
	}
	if d := w.latency; d != nil {
		if lat := d(); lat > 0 && w.env.Sched != nil {
			w.env.Sched.Sleep(lat) // the token request is in flight while time passes
		}
	}
	it := &issuedToken{token: tok, host: h.name, requested: requested, reqText: scopeText, granted: granted, issuedAt: w.now(), lifetime: 60 * time.Second}
	if life > 0 {
		it.lifetime = time.Duration(life) * time.Second
	}
	if o != nil {
		it.callID = o.callID
		o.status = 200
	}
	it.acquisitions = []acquisition{{requested: requested, callID: it.callID, expires: it.issuedAt.Add(it.lifetime)}}
	w.issued[tok] = it
	if h.sameToken {
		h.curTok = tok
	}
	data, _ := json.Marshal(resp)
	rw.Header().Set("Content-Type", "application/json")
	rw.WriteHeader(200)
	rw.Write(data)
}

// config implements ociauth.Config for the world.
type worldConfig struct {
	w       *authWorld
	failFor map[string]bool
}

func (c worldConfig) EntryForRegistry(host string) (ociauth.ConfigEntry, error) {
	if c.failFor[host] {
		c.w.env.Fault("config-lookup-fails")
		return ociauth.ConfigEntry{}, fmt.Errorf("config lookup failed for %s", host)
	}
	h := c.w.hosts[host]
	if h == nil {
		return ociauth.ConfigEntry{}, nil
	}
	return ociauth.ConfigEntry{Username: h.user, Password: h.pass, RefreshToken: h.refresh, AccessToken: h.static}, nil
}

type trackedBody struct {
	data   *strings.Reader
	closed int
	reads  int
}

func (b *trackedBody) Read(p []byte) (int, error) { b.reads++; return b.data.Read(p) }
func (b *trackedBody) Close() error               { b.closed++; return nil }

// call issues one request through the auth transport and returns the response
// status (0 on error) together with everything that went out during the call.
type callResult struct {
	id        int
	status    int
	err       error
	outs      []*outReq
	body      *trackedBody
	getBodies []*trackedBody
	start     time.Time
	reqEq     string // "" if the caller's request was left unmodified
}

func (w *authWorld) call(id int, host, required, desired string, withBody, withGetBody bool) *callResult {
	ctx := context.WithValue(context.Background(), callIDKey{}, id)
	if w.callHost == nil {
		w.callHost = map[int]string{}
	}
	w.callHost[id] = host
	ctx = ociauth.ContextWithRequestInfo(ctx, ociauth.RequestInfo{RequiredScope: ociauth.ParseScope(required)})
	if desired == desiredEverything {
		ctx = ociauth.ContextWithScope(ctx, ociauth.UnlimitedScope())
	} else if desired != "" {
		ctx = ociauth.ContextWithScope(ctx, ociauth.ParseScope(desired))
	}
	method := "GET"
	var tb *trackedBody
	u := &url.URL{Scheme: "http", Host: host, Path: "/v2/some/thing"}
	hostHeader := host
	if w.hostHeader != nil {
		// (a request may name another host in its Host field than the one its URL goes
		// to - a virtual host, a leftover; where the request goes is what counts)
		hostHeader = w.hostHeader(host)
	}
	req := (&http.Request{Method: method, URL: u, Header: http.Header{"X-Demand": {required}, "X-Caller": {"keep-me"}}, Host: hostHeader}).WithContext(ctx)
	if withBody {
		req.Method = "PUT"
		tb = &trackedBody{data: strings.NewReader("request-body")}
		req.Body = tb
		req.ContentLength = 12
	}
	var getBodies []*trackedBody
	if withBody && withGetBody {
		req.GetBody = func() (io.ReadCloser, error) {
			b := &trackedBody{data: strings.NewReader("request-body")}
			getBodies = append(getBodies, b)
			return b, nil
		}
	}
	before := snapshotRequest(req)
	first := len(w.out)
	res := &callResult{id: id, body: tb, start: w.now()}
	resp, err := w.rt.RoundTrip(req)
	res.err = err
	if resp != nil {
		res.status = resp.StatusCode
		if resp.Body != nil {
			resp.Body.Close()
		}
	}
	for _, o := range w.out[first:] {
		if o.callID == id {
			res.outs = append(res.outs, o)
		}
	}
	res.getBodies = getBodies
	if after := snapshotRequest(req); after != before {
		res.reqEq = fmt.Sprintf("before: %s\nafter:  %s", before, after)
	}
	return res
}

func snapshotRequest(req *http.Request) string {
	var hs []string
	for k, v := range req.Header {
		hs = append(hs, k+"="+strings.Join(v, "|"))
	}
	sort.Strings(hs)
	return fmt.Sprintf("%s %s host=%s hdr=%v cl=%d body=%p getbody=%v", req.Method, req.URL.String(), req.Host, hs, req.ContentLength, req.Body, req.GetBody != nil)
}
