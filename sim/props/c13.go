package props

import (
	"bytes"
	"context"
	"errors"
	"fmt"
	"strings"

	"cuelabs.dev/go/oci/ociregistry"
	"cuelabs.dev/go/oci/ociregistry/ociauth"
	"cuelabs.dev/go/oci/ociregistry/ocifilter"
	"cuelabs.dev/go/oci/ociregistry/ocimem"

	"verifsim/core"
	"verifsim/reg"
)

// C13: the sub-registry view is confined to its prefix and equals the restricted
// registry. Sequential (no schedule dimension; see DESIGN.md): generated
// histories through ocifilter.Sub over a recording backend that also holds
// sibling repositories sharing a textual prefix, with caller-supplied names that
// include empty, dot, dot-dot, doubled-slash and upper-case segments, and auth
// scopes in the context.
func init() {
	core.Components["C13"] = [2][]string{
		{"ocifilter.Sub", "ociauth context scopes", "ocimem as underlying registry"},
		{"none (direct calls); the recording backend is reg.Wrap"}}
	core.Rules["C13"] = "one evaluation = one generated history of 10-40 calls through Sub(prefix) (well-formed names checked against the reference model of the view; hostile names checked only for confinement), with sibling repositories outside the prefix in the backend and an auth scope in the context; distinct = distinct sequence of (operation kind, name class, outcome) tokens; non-trivial = at least one call issued"
	register(&core.Scenario{Name: "c13-sub", Property: "C13", Weight: 1, Run: c13})
}

var hostileNames = []string{"", ".", "..", "../x", "../../x", "a/../../x", "a/..", "/abs", "a//b", "a/", "/", "A", "a/./b", "..foo", "x/../../pre2/a", "../pre2/a", "../prefix/a",
	// names that would mean something else once pasted into a URL
	"a?n=1", "a#frag", "a/blobs/uploads/?mount=sha256:e3b0c44298fc1c149afbf4c8996fb92427ae41e4649b934ca495991b7852b855&from=pre2/a&", "a/blobs/uploads/?from=x&", "a/tags/list?last=", "a%2f..%2f..%2fx", "a/manifests/latest#", "a/blobs/sha256:e3b0c44298fc1c149afbf4c8996fb92427ae41e4649b934ca495991b7852b855?"}

func c13(env *core.Env) {
	c := env.C
	ctx0 := context.Background()
	prefix := []string{"pre", "pre/fix", "x/y/z"}[c.Int("prefix", 3)]
	mem := ocimem.New()
	tracker := reg.NewTracker()
	// the underlying listing may break off: the view's listing then ends with an error
	// too, not as if it were complete
	breakAt := -1
	plan := &reg.FaultPlan{IterFailAfter: func(call *reg.Call) (int, error) {
		if call.Method != "Repositories" || breakAt < 0 {
			return -1, nil
		}
		return breakAt, errors.New("the underlying listing broke off")
	}}
	backend := reg.Wrap(mem, tracker, plan)
	// siblings outside the prefix, some sharing a textual prefix with it
	blob := []byte("sibling")
	bdesc := ociregistry.Descriptor{Digest: reg.Sha256(blob), Size: int64(len(blob)), MediaType: "application/octet-stream"}
	// siblings: sharing a textual prefix, and sorting between "<prefix>" and "<prefix>/" ('-' and '.' sort before '/')
	siblings := []string{prefix + "x/a", prefix + "2", "pre2/a", "prefix/a", "x", "a", "zz/b", strings.Split(prefix, "/")[0], prefix + "-bar/x", prefix + ".d/y", prefix + "-1"}
	var outside []string
	for _, s := range siblings {
		if c.Bool("sibling", 2, 3) && !strings.HasPrefix(s, prefix+"/") {
			if _, err := mem.PushBlob(ctx0, s, bdesc, bytes.NewReader(blob)); err != nil {
				core.Harnessf("populate sibling %q: %v", s, err)
			}
			mem.PushManifest(ctx0, s, "latest", []byte(`{"sibling":true}`), "application/x-verif.opaque")
			outside = append(outside, s)
		}
	}
	// the registry under the view is either called directly or is an ociclient in
	// front of a server (then names travel inside URLs)
	overHTTP := c.Bool("backend-over-http", 1, 3)
	var under ociregistry.Interface = backend
	if overHTTP {
		under, _ = httpHop(env, backend, &stackOpts{}, "hop")
	}
	view := ocifilter.Sub(under, prefix)
	if parts := strings.Split(prefix, "/"); len(parts) > 1 && c.Bool("view-of-a-view", 1, 3) {
		// the same view, arrived at in two steps: a view of a view
		k := c.Range("view-of-a-view.split", 1, len(parts)-1)
		view = ocifilter.Sub(ocifilter.Sub(under, strings.Join(parts[:k], "/")), strings.Join(parts[k:], "/"))
		env.Probe("c13:view-of-a-view")
	}
	m := reg.NewModel(false)
	m.StrictCodes = false
	cfg := reg.GenConfig{
		Repos:    pickSome(c, "repos", []string{"a", "a/b", "x", "foo", "pre", "fix", "pre2/a", "blobs/uploads", "zz", "pre/fix", "pre/fix/a", "x/y/z/w", "pre/a", "a-b", "a.b/c"}, 1, 5),
		Tags:     pickSome(c, "tags", tagNames, 1, 2),
		MaxBlob:  40,
		Weights:  reg.DefaultWeights(),
		Uploads:  true,
		Stops:    true,
		HTTPSafe: overHTTP,
	}
	cfg.Weights[reg.Repositories] = 10
	g := reg.NewGen(c, m, cfg)
	h := reg.NewHandles()
	n := c.Range("nops", 10, 40)
	if env.Tier == "thorough" && c.Bool("deep", 1, 3) {
		n = c.Range("nops.deep", 40, 160)
	}
	env.Sample("prefix=%q siblings outside=%v view repos=%v backend over HTTP=%v", prefix, outside, cfg.Repos, overHTTP)
	scopeOn := c.Bool("scope", 2, 3) && !overHTTP // (a scope in the context does not travel over HTTP)
	for i := 0; i < n; i++ {
		op := g.Next()
		nameClass := "wellformed"
		if op.Kind < reg.UpResume && op.Kind != reg.Repositories && c.Bool("hostile", 1, 5) {
			op.Repo = hostileNames[c.Int("hostile.name", len(hostileNames))]
			nameClass = "hostile"
			if op.Kind == reg.MountBlob && c.Bool("hostile.from", 1, 2) {
				op.Repo2 = hostileNames[c.Int("hostile.name2", len(hostileNames))]
			}
			if op.Kind == reg.UpStart {
				continue // keeps the generator's upload bookkeeping simple
			}
		}
		ctx := ctx0
		var wantScope ociauth.Scope
		unlimited := scopeOn && c.Bool("scope.unlimited", 1, 8)
		if unlimited {
			// the scope that contains every other scope has nothing to rewrite
			ctx = ociauth.ContextWithScope(ctx0, ociauth.UnlimitedScope())
		} else if scopeOn {
			rs := []ociauth.ResourceScope{
				{ResourceType: ociauth.TypeRepository, Resource: "a/b", Action: ociauth.ActionPull},
				{ResourceType: ociauth.TypeRepository, Resource: op.Repo, Action: ociauth.ActionPush},
				{ResourceType: ociauth.TypeRepository, Resource: prefix + "/nested", Action: ociauth.ActionPull}, // a view name that repeats the prefix
				{ResourceType: ociauth.TypeRegistry, Resource: "catalog", Action: "*"},
				{ResourceType: "other", Resource: "thing", Action: "do"},
			}
			if op.Repo == "" {
				rs = rs[:1]
			}
			ctx = ociauth.ContextWithScope(ctx0, ociauth.NewScope(rs...))
			var mapped []ociauth.ResourceScope
			for _, r := range rs {
				if r.ResourceType == ociauth.TypeRepository {
					r.Resource = prefix + "/" + r.Resource
				}
				mapped = append(mapped, r)
			}
			wantScope = ociauth.NewScope(mapped...)
		}
		tracker.Reset()
		breakAt = -1
		if op.Kind == reg.Repositories && c.Bool("underlying-listing-breaks-off", 1, 5) {
			breakAt = c.Range("underlying-listing-breaks-off.at", 0, 4)
		}
		delivered := plan.IterFaultsDelivered
		res := reg.Exec(ctx, view, op, h)
		breakAt = -1
		if plan.IterFaultsDelivered > delivered {
			env.Fault("underlying-listing-breaks-off")
			env.Op("Repositories:underlying-listing-breaks-off:" + fmt.Sprint(res.ListErr != nil))
			env.Logf("%d %s [underlying listing broke off after %d names] -> %s", i, op, plan.IterItemsBeforeFault, res)
			if res.ListErr == nil && !(op.StopAfter >= 0 && len(res.Items) >= op.StopAfter) {
				env.Failf("C13/Repositories/underlying-error-swallowed", "%s through Sub(%q): the underlying listing broke off after %d names with an error, but the view's listing ended without one, as if complete: %v", op, prefix, plan.IterItemsBeforeFault, res.Items)
			}
			continue
		}
		env.Op(op.Kind.String() + ":" + nameClass + ":" + reg.CodeOf(res.Err))
		env.Logf("%d %s [%s] -> %s calls=%v", i, op, nameClass, res, tracker.Calls)
		env.Sample("%s [%s] -> %s", op, nameClass, res)
		class := func(k string) string { return "C13/" + op.Kind.String() + "/" + k + "/" + nameClass }
		// confinement: whatever reached the backend names prefix/n exactly
		for _, call := range tracker.Calls {
			if call.Method == "Repositories" {
				continue
			}
			wantRepo := prefix + "/" + op.Repo
			if op.Kind >= reg.UpResume {
				if u := m.Uploads[op.Handle]; u != nil {
					wantRepo = prefix + "/" + u.Repo
				}
			}
			if op.Repo == "" && op.Kind < reg.UpResume {
				wantRepo = "" // an empty name is handed down as is so that the backend refuses it
			}
			if call.Repo != wantRepo {
				env.Failf(class("backend-wrong-repo"), "%s through Sub(%q) reached the underlying registry as repository %q, want exactly %q", op, prefix, call.Repo, wantRepo)
			}
			if call.Method == "MountBlob" {
				wantFrom := prefix + "/" + op.Repo2
				if op.Repo2 == "" {
					wantFrom = ""
				}
				if call.Repo2 != wantFrom {
					env.Failf(class("backend-wrong-repo"), "%s through Sub(%q) mounts from %q, want exactly %q", op, prefix, call.Repo2, wantFrom)
				}
			}
			if unlimited && op.Kind < reg.UpResume {
				if call.Scope != ociauth.UnlimitedScope().String() {
					env.Failf(class("scope-not-rewritten"), "%s: the unlimited auth scope in the context reached the backend as %q", op, call.Scope)
				}
			} else if scopeOn && op.Kind < reg.UpResume {
				got := ociauth.ParseScope(call.Scope)
				// (a name with a colon in it does not survive the scope text syntax; the
				// texts are compared then)
				if !got.Equal(wantScope) && call.Scope != wantScope.String() {
					env.Failf(class("scope-not-rewritten"), "%s: the auth scope in the context reached the backend as %q, want %q", op, call.Scope, wantScope.String())
				}
			}
		}
		if nameClass == "hostile" {
			// a hostile name must not give access to anything that exists outside
			if res.Err == nil && res.ListErr == nil && op.Kind != reg.Tags && op.Kind != reg.Referrers {
				if !reg.ValidRepo(op.Repo) || (op.Kind == reg.MountBlob && !reg.ValidRepo(op.Repo2)) {
					env.Failf(class("hostile-name-accepted"), "%s succeeded through Sub(%q) although %q is not a repository name: %s", op, prefix, op.Repo, res)
				}
			}
			if reg.ValidRepo(op.Repo) && (op.Kind != reg.MountBlob || reg.ValidRepo(op.Repo2)) {
				m.Step(op, res)
			}
			continue
		}
		// well-formed: equals the restricted registry
		ok, why := m.Step(op, res)
		if !ok {
			env.Failf(classOf("C13", op, why), "step %d: %s through Sub(%q)\n  result: %s\n  restricted model: %s", i, op, prefix, res, why)
		}
	}
	// nothing outside the prefix was touched
	for _, s := range outside {
		if _, err := mem.ResolveBlob(ctx0, s, bdesc.Digest); err != nil {
			env.Failf("C13/sibling-damaged", "sibling repository %q outside prefix %q lost its blob: %v", s, prefix, err)
		}
		tags, _ := ociregistry.All(mem.Tags(ctx0, s, ""))
		if len(tags) != 1 {
			env.Failf("C13/sibling-damaged", "sibling repository %q outside prefix %q now has tags %v", s, prefix, tags)
		}
	}
}
