package props

import (
	"encoding/json"
	"fmt"
	"os"
	"path/filepath"
	"sort"
	"strings"
	"sync"

	"cuelabs.dev/go/oci/ociregistry/ociauth"

	"verifsim/core"
)

// c19-exec-helper: the same precedence and order-independence questions as
// c19-config-lookup, asked of the real helper protocol: ociauth.ExecHelperWithEnv runs
// docker-credential-<name> programs, here small shell scripts (and one file that is
// executable but no program) in a directory put on PATH once per worker process. What a
// helper answers for a host comes from a table file named in the environment handed to
// the helper, written per run.
//
// Nondeterminism under control: the order of lookups on one ConfigFile (seeded), and
// whatever state the runner keeps between two executions.

var c19helpers struct {
	once sync.Once
	dir  string
	err  error
}

const c19helperScript = `#!/bin/sh
# docker-credential-verifstore get: answers from the table named by $VERIF_HELPER_TABLE
host=$(cat)
line=$(grep -F -- "	$host	" "$VERIF_HELPER_TABLE" | head -n 1)
kind=$(printf '%s' "$line" | cut -f 1)
user=$(printf '%s' "$line" | cut -f 3)
secret=$(printf '%s' "$line" | cut -f 4)
case "$kind" in
creds) printf '{"ServerURL":"%s","Username":"%s","Secret":"%s"}\n' "$host" "$user" "$secret" ;;
token) printf '{"Username":"<token>","Secret":"%s"}\n' "$secret" ;;
garbage) echo "this is not json" ;;
error) echo "the keychain is locked ($host)"; exit 1 ;;
stderr) echo "warning: slow keychain" >&2; echo "the keychain is locked ($host)"; exit 1 ;;
*) echo "credentials not found in native keychain"; exit 1 ;;
esac
`

func c19helperDir() (string, error) {
	h := &c19helpers
	h.once.Do(func() {
		dir, err := os.MkdirTemp("", "verif-c19-helpers-")
		if err != nil {
			h.err = err
			return
		}
		for _, name := range []string{"verifstore", "verifother"} {
			if err := os.WriteFile(filepath.Join(dir, "docker-credential-"+name), []byte(c19helperScript), 0o755); err != nil {
				h.err = err
				return
			}
		}
		// executable, but not a program: it exists, it cannot be started
		if err := os.WriteFile(filepath.Join(dir, "docker-credential-verifbroken"), []byte("\x00\x01\x02 not a program \xff\xfe\n"), 0o755); err != nil {
			h.err = err
			return
		}
		os.Setenv("PATH", dir+string(os.PathListSeparator)+os.Getenv("PATH"))
		h.dir = dir
	})
	return h.dir, h.err
}

func init() {
	c := core.Components["C19"]
	c[0] = append(c[0], "ociauth.ExecHelperWithEnv running real docker-credential-* programs (shell scripts written by the harness, os/exec, pipes)")
	core.Components["C19"] = c
	register(&core.Scenario{Name: "c19-exec-helper", Property: "C19", Weight: 1, Run: c19exec})
}

func c19exec(env *core.Env) {
	c := env.C
	hdir, err := c19helperDir()
	if err != nil {
		core.Harnessf("helper directory: %v", err)
	}
	if _, err := os.Stat("/bin/sh"); err != nil {
		core.Harnessf("no /bin/sh to run helper scripts with: %v", err)
	}
	dir, err := os.MkdirTemp("", "verif-c19x-")
	if err != nil {
		core.Harnessf("%v", err)
	}
	defer os.RemoveAll(dir)
	clean := func(s string) string {
		return strings.ReplaceAll(strings.ReplaceAll(s, hdir, "<helpers>"), dir, "<run>")
	}

	hosts := []string{"h1.example", "h2.example:5000", "h3", "h4.example"}
	kinds := []string{"creds", "token", "garbage", "error", "stderr", "notfound", "absent"}
	// what each helper program answers per host: one table file per program
	answers := map[string]map[string]string{"verifstore": {}, "verifother": {}}
	tables := map[string]string{}
	for _, prog := range []string{"verifstore", "verifother"} {
		var sb strings.Builder
		for _, h := range hosts {
			k := kinds[c.Weighted("answer."+prog, []int{6, 2, 1, 2, 1, 3, 2})]
			answers[prog][h] = k
			if k != "absent" {
				fmt.Fprintf(&sb, "%s\t%s\t%s\t%s\n", k, h, "user-"+prog+"-"+h, "secret-"+prog+"-"+h)
			}
		}
		p := filepath.Join(dir, "table-"+prog)
		if err := os.WriteFile(p, []byte(sb.String()), 0o644); err != nil {
			core.Harnessf("%v", err)
		}
		tables[prog] = p
	}

	// the document
	doc := c19Doc{Auths: map[string]c19Entry{}, CredHelpers: map[string]string{}}
	store := []string{"", "verifstore", "verifbroken", "verifmissing"}[c.Weighted("store", []int{1, 5, 3, 3})]
	doc.CredsStore = store
	for _, h := range hosts {
		if c.Bool("table.entry", 1, 2) {
			doc.Auths[h] = c19Entry{Username: "table-user-" + h, Password: "table-pass-" + h}
		}
		switch c.Weighted("perhost", []int{6, 2, 1, 1}) {
		case 1:
			doc.CredHelpers[h] = "verifother"
		case 2:
			doc.CredHelpers[h] = "verifbroken"
		case 3:
			doc.CredHelpers[h] = "verifmissing"
		}
	}
	data, _ := json.Marshal(doc)
	if err := os.WriteFile(filepath.Join(dir, "config.json"), data, 0o600); err != nil {
		core.Harnessf("%v", err)
	}
	env.Sample("exec helpers: config %s; store answers %v; per-host helper answers %v", data, answers["verifstore"], answers["verifother"])

	// A script finds its table through the environment it is run with: one runner per
	// program, each with its own table, dispatched by helper name.
	envFor := func(prog string) []string {
		return []string{"PATH=" + os.Getenv("PATH"), "DOCKER_CONFIG=" + dir, "VERIF_HELPER_TABLE=" + tables[prog]}
	}
	runners := map[string]ociauth.HelperRunner{
		"verifstore": ociauth.ExecHelperWithEnv(envFor("verifstore")),
		"verifother": ociauth.ExecHelperWithEnv(envFor("verifother")),
	}
	fallback := ociauth.ExecHelperWithEnv(envFor("verifstore"))
	nexec := 0
	runner := func(helperName, serverURL string) (ociauth.ConfigEntry, error) {
		nexec++
		if r, ok := runners[helperName]; ok {
			return r(helperName, serverURL)
		}
		return fallback(helperName, serverURL)
	}

	// the reference: only what the statement fixes
	type want struct {
		known   bool // the statement fixes the outcome
		errored bool
		entry   ociauth.ConfigEntry
		why     string
	}
	tableEntry := func(h string) ociauth.ConfigEntry {
		if e, ok := doc.Auths[h]; ok {
			return ociauth.ConfigEntry{Username: e.Username, Password: e.Password}
		}
		return ociauth.ConfigEntry{}
	}
	fromHelper := func(prog, h string) want {
		switch answers[prog][h] {
		case "creds":
			return want{known: true, entry: ociauth.ConfigEntry{Username: "user-" + prog + "-" + h, Password: "secret-" + prog + "-" + h}, why: "the helper has credentials for the host"}
		case "token":
			return want{known: true, entry: ociauth.ConfigEntry{RefreshToken: "secret-" + prog + "-" + h}, why: "the helper has an identity token for the host"}
		case "garbage", "error", "stderr":
			return want{known: true, errored: true, why: "the helper failed"}
		}
		return want{} // "not found": what that means for the lookup the statement leaves open
	}
	ref := func(h string) want {
		if prog, ok := doc.CredHelpers[h]; ok {
			switch prog {
			case "verifother":
				return fromHelper(prog, h) // a per-host helper wins over the default store and the table
			default:
				return want{} // a per-host helper that is missing or cannot run: not fixed by the statement
			}
		}
		switch store {
		case "":
			return want{known: true, entry: tableEntry(h), why: "no helper is configured: the auths table"}
		case "verifstore":
			return fromHelper(store, h) // the default store wins over the table
		case "verifmissing":
			return want{known: true, entry: tableEntry(h), why: "the default helper is missing: the lookup falls back to the auths table"}
		case "verifbroken":
			return want{known: true, errored: true, why: "the default helper exists but cannot be run: only a missing helper falls back to the table"}
		}
		return want{}
	}

	var first map[string]c19Result
	rounds := c.Range("rounds", 2, 3)
	for round := 0; round < rounds; round++ {
		cf, err := ociauth.LoadWithEnv(runner, envFor("verifstore"))
		if err != nil {
			env.Failf("C19/exec/load", "LoadWithEnv failed for a well-formed document: %s (config %s)", clean(err.Error()), data)
		}
		// a lookup sequence with repeats
		var seq []string
		for _, i := range c.Perm("lookup.order", len(hosts)) {
			seq = append(seq, hosts[i])
			if c.Bool("lookup.again", 1, 3) {
				seq = append(seq, hosts[c.Int("lookup.again.which", len(hosts))])
			}
		}
		results := map[string]c19Result{}
		for _, h := range seq {
			e, err := cf.EntryForRegistry(h)
			r := c19Result{entry: e}
			if err != nil {
				r = c19Result{errored: true, errText: clean(err.Error())}
			}
			env.Logf("round %d: lookup %s -> %s %s", round, h, r, r.errText)
			if prev, ok := results[h]; ok && (prev.errored != r.errored || prev.entry != r.entry || prev.errText != r.errText) {
				env.Failf("C19/exec/not-repeatable", "two lookups of %q on one ConfigFile differ: %s %q, then (after lookups of other hosts) %s %q (config %s, lookups %v)", h, prev, prev.errText, r, r.errText, data, seq)
			}
			results[h] = r
		}
		for _, h := range hosts {
			got, w := results[h], ref(h)
			if !w.known {
				continue
			}
			if got.errored != w.errored || (!w.errored && got.entry != w.entry) {
				wantS := "an error"
				if !w.errored {
					wantS = c19Result{entry: w.entry}.String()
				}
				env.Failf("C19/exec/precedence", "lookup of %q gives %s %q, want %s (%s; config %s, helper answers %v / %v)", h, got, got.errText, wantS, w.why, data, answers["verifstore"], answers["verifother"])
			}
		}
		if first == nil {
			first = results
			continue
		}
		for _, h := range hosts {
			a, b := first[h], results[h]
			if a.errored != b.errored || a.entry != b.entry || a.errText != b.errText {
				env.Failf("C19/exec/order-dependent", "lookup of %q gives %s %q under one order of lookups and %s %q under another (config %s)", h, a, a.errText, b, b.errText, data)
			}
		}
	}
	var shape []string
	for _, h := range hosts {
		_, t := doc.Auths[h]
		shape = append(shape, fmt.Sprintf("%s/%s/%s/%v", doc.CredHelpers[h], answers["verifstore"][h], answers["verifother"][h], t))
	}
	sort.Strings(shape)
	env.Op(fmt.Sprintf("exec/%s/%v/%d", store, shape, min(nexec, 9)))
	if nexec > 0 {
		env.Probe("c19:helper-programs-executed")
	}
}
