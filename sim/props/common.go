// Package props holds one scenario family per claimed property.
package props

import (
	"cmp"
	"context"
	"fmt"
	"io"
	"net/http"
	"slices"
	"strings"
	"sync"

	"cuelabs.dev/go/oci/ociregistry"
	"cuelabs.dev/go/oci/ociregistry/ociclient"
	"cuelabs.dev/go/oci/ociregistry/ocidebug"
	"cuelabs.dev/go/oci/ociregistry/ocifilter"
	"cuelabs.dev/go/oci/ociregistry/ocimem"
	"cuelabs.dev/go/oci/ociregistry/ociserver"
	"cuelabs.dev/go/oci/ociregistry/ociunify"

	"verifsim/core"
	"verifsim/reg"
	"verifsim/simnet"
)

// All is the scenario table.
var All []*core.Scenario

func register(s *core.Scenario) { All = append(All, s) }

var stdReal = []string{"ociregistry (errors, Funcs, iter)", "ocimem", "ociserver", "ociclient", "ocifilter", "ociunify", "ocidebug", "internal/ocirequest", "ociref", "net/http client machinery (http.Client.Do, redirects, request construction)"}
var stdStub = []string{"net/http transport and server (sockets, framing): simnet.Transport calls the handler in-process with a modelled ResponseWriter", "Go scheduler choice of which goroutine runs (decided by the simulator at every instrumented synchronisation point)"}

// repoAlphabet: valid names, including ones containing routing words.
var repoNames = []string{"foo", "foo/bar", "a/blobs/uploads", "x/manifests/y", "tags/list", "r/referrers", "v2", "a/b/c/d", "blobs", "foo-bar/baz_q.r", "uploads/a", "a/tags"}
var badRepoNames = []string{"", "Foo", "a//b", "/a", "a/", "a b", "a/../b", "é", "-a", "a..b"}
var tagNames = []string{"latest", "v1", "blobs", "manifests", "tags", "a.b-c_d", "V2"}

func pickSome(c *core.Choices, kind string, from []string, min, max int) []string {
	n := c.Range(kind+".n", min, max)
	if n > len(from) {
		n = len(from)
	}
	p := c.Perm(kind, len(from))
	out := make([]string, 0, n)
	for _, i := range p[:n] {
		out = append(out, from[i])
	}
	return out
}

// classOf builds a stable violation class from the operation and the kind of
// disagreement (never from message text of the library).
func classOf(prefix string, op *reg.Op, why string) string {
	kind := "wrong-result"
	switch {
	case strings.Contains(why, "expected failure, got success"):
		kind = "unexpected-success"
	case strings.Contains(why, "expected error code"):
		kind = "wrong-code"
	case strings.Contains(why, " failed: ") || strings.HasSuffix(why, " failed") || strings.Contains(why, "failed with"):
		kind = "unexpected-failure"
	case strings.Contains(why, "listing") || strings.Contains(why, "iterator") || strings.Contains(why, "consumer"):
		kind = "listing"
	}
	q := ""
	switch op.Kind {
	case reg.PushBlob:
		if op.MediaType == "" {
			q += "/mt-empty"
		}
		if !strings.HasPrefix(string(op.Digest), "sha256:") {
			q += "/alt-algo"
		}
		if len(op.Data) <= 1 {
			q += fmt.Sprintf("/len=%d", len(op.Data))
		}
	case reg.GetBlobRange:
		if op.O1 < 0 {
			q += "/open-end"
		}
	case reg.UpWrite:
		if len(op.Data) <= 1 {
			q += fmt.Sprintf("/len=%d", len(op.Data))
		}
	}
	return prefix + "/" + op.Kind.String() + "/" + kind + q
}

// runHistory drives a generated history against r, checking every result against
// the model.
func runHistory(env *core.Env, ctx context.Context, r ociregistry.Interface, m *reg.Model, g *reg.Gen, nops int, prefix string) {
	h := reg.NewHandles()
	for i := 0; i < nops; i++ {
		op := g.Next()
		res := reg.Exec(ctx, r, op, h)
		outcome := "ok"
		if res.Err != nil {
			outcome = reg.CodeOf(res.Err)
		} else if res.ListErr != nil {
			outcome = "listerr:" + reg.CodeOf(res.ListErr)
		}
		env.Op(op.Kind.String() + ":" + outcome)
		env.Logf("%d %s -> %s", i, op, res)
		env.Sample("%s -> %s", op, res)
		ok, why := m.Step(op, res)
		if !ok {
			env.Failf(classOf(prefix, op, why), "step %d: %s\n  result: %s\n  model: %s", i, op, res, why)
		}
		env.State(m.Canon())
	}
}

// --- stacks ---

type stackOpts struct {
	// Kind lists the layers from the backend outwards, joined by "+":
	//   mem | unify | unifyc   base: one ocimem, or ociunify over two (sequential / concurrent reads)
	//   rec                    recording / fault-injecting wrapper (reg.Wrap)
	//   http1                  ociclient -> simnet -> ociserver hop
	//   http2                  two such hops
	//   debug | select | sub   ocidebug, ocifilter.Select(allow all), ocifilter.Sub(prefix)
	Kind      string
	Immutable bool
	Server    ociserver.Options
	PageSize  int
	Plan      func(req *http.Request) simnet.Fault
	OneByte   bool
	EOFData   bool
	Backend   *reg.FaultPlan
	SubPrefix string
	// RotatingUploadIDs: the backend gives an upload session a new id whenever data has
	// gone in (reg.RotatingIDs); not under a unified registry.
	RotatingUploadIDs bool
}

type stack struct {
	Reg        ociregistry.Interface
	Mem        *ocimem.Registry
	Mem1       *ocimem.Registry // second member of a unified registry
	Transports []*simnet.Transport
	Tracker    *reg.Tracker
	Desc       string
	// Uploads notes the upload sessions started on Mem (so that the harness can look
	// at one in the backend without knowing how any layer above spells upload ids).
	Uploads *uploadSpy
	// Rotating is the id-rotating layer on the backend, if there is one.
	Rotating *reg.Rotating
}

// uploadSpy sits directly on a backend and notes the id of every upload it starts.
type uploadSpy struct {
	ociregistry.Interface
	mu      sync.Mutex
	started []startedUpload
}

type startedUpload struct{ repo, id string }

func (s *uploadSpy) PushBlobChunked(ctx context.Context, repo string, chunkSize int) (ociregistry.BlobWriter, error) {
	w, err := s.Interface.PushBlobChunked(ctx, repo, chunkSize)
	if err == nil {
		s.mu.Lock()
		s.started = append(s.started, startedUpload{repo, w.ID()})
		s.mu.Unlock()
	}
	return w, err
}

// count is the number of uploads started so far.
func (s *uploadSpy) count() int {
	s.mu.Lock()
	defer s.mu.Unlock()
	return len(s.started)
}

// between returns the ids of the uploads started in repo from the from-th up to (not
// including) the to-th; to < 0 means all that follow.
func (s *uploadSpy) between(from, to int, repo string) []string {
	s.mu.Lock()
	defer s.mu.Unlock()
	if to < 0 || to > len(s.started) {
		to = len(s.started)
	}
	var ids []string
	for _, u := range s.started[from:to] {
		if u.repo == repo {
			ids = append(ids, u.id)
		}
	}
	return ids
}

func newMem(immutable bool) *ocimem.Registry {
	return ocimem.NewWithConfig(&ocimem.Config{ImmutableTags: immutable})
}

// httpHop puts ociclient -> simnet -> ociserver in front of backend.
func httpHop(env *core.Env, backend ociregistry.Interface, o *stackOpts, name string) (ociregistry.Interface, *simnet.Transport) {
	srvOpts := o.Server
	tr := &simnet.Transport{
		Env:          env,
		Handler:      ociserver.New(backend, &srvOpts),
		Plan:         o.Plan,
		OneByteReads: o.OneByte,
		EOFWithData:  o.EOFData,
		Name:         name,
	}
	c, err := ociclient.New("sim.example", &ociclient.Options{Transport: tr, Insecure: true, ListPageSize: o.PageSize})
	if err != nil {
		core.Harnessf("ociclient.New: %v", err)
	}
	return c, tr
}

func buildStack(env *core.Env, o *stackOpts) *stack {
	s := &stack{Mem: newMem(o.Immutable), Desc: o.Kind, Tracker: reg.NewTracker()}
	s.Uploads = &uploadSpy{Interface: s.Mem}
	var r ociregistry.Interface = s.Uploads
	if o.RotatingUploadIDs && !strings.HasPrefix(o.Kind, "unify") {
		s.Rotating = reg.RotatingIDs(r)
		r = s.Rotating
	}
	for i, part := range strings.Split(o.Kind, "+") {
		switch part {
		case "mem":
		case "unify", "unifyc":
			if i != 0 {
				core.Harnessf("unify must be the base layer")
			}
			s.Mem1 = newMem(o.Immutable)
			pol := ociunify.ReadSequential
			if part == "unifyc" {
				pol = ociunify.ReadConcurrent
			}
			r = ociunify.New(s.Uploads, s.Mem1, &ociunify.Options{ReadPolicy: pol})
		case "rec":
			r = reg.Wrap(r, s.Tracker, o.Backend)
		case "http1":
			c, tr := httpHop(env, r, o, fmt.Sprintf("hop%d", len(s.Transports)+1))
			r = c
			s.Transports = append(s.Transports, tr)
		case "http2":
			c, tr := httpHop(env, r, o, "hop-inner")
			s.Transports = append(s.Transports, tr)
			c2, tr2 := httpHop(env, c, o, "hop-outer")
			s.Transports = append(s.Transports, tr2)
			r = c2
		case "debug":
			r = ocidebug.New(r, func(string, ...any) {})
		case "select":
			r = ocifilter.Select(r, func(string) bool { return true })
		case "sub":
			p := o.SubPrefix
			if p == "" {
				p = "pre/fix"
			}
			r = ocifilter.Sub(r, p)
		default:
			core.Harnessf("unknown stack part %q", part)
		}
	}
	s.Reg = r
	return s
}

var _ = io.EOF

func newClient(tr http.RoundTripper, pageSize int) (ociregistry.Interface, error) {
	return ociclient.New("sim.example", &ociclient.Options{Transport: tr, Insecure: true, ListPageSize: pageSize})
}

// sortedKeys: the keys of a harness-side map in a fixed order (Go's own order is
// random, and the order of the oracle's reads must not differ between two runs of
// one seed).
func sortedKeys[K cmp.Ordered, V any](m map[K]V) []K {
	ks := make([]K, 0, len(m))
	for k := range m {
		ks = append(ks, k)
	}
	slices.Sort(ks)
	return ks
}
