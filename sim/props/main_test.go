package props

import (
	"testing"

	"verifsim/core"
)

// TestSim is the single entry point of the runner binary; VERIF_ARGS selects the
// role of this process (driver, worker, replay, shrink, dettest).
func TestSim(t *testing.T) {
	core.Main(All)
}
