package core

import (
	"encoding/json"
	"fmt"
	"os"
	"os/exec"
	"path/filepath"
	"slices"
	"sort"
	"strings"
	"sync"
	"sync/atomic"
	"time"
)

// Args configures one process of the runner. The registered ./check command starts
// a driver; the driver starts workers (one OS process each, GOMAXPROCS=1), a
// shrinker and fresh-process replays of the same test binary.
type Args struct {
	Mode        string   `json:"mode"` // driver | worker | replay | shrink | dettest
	Property    string   `json:"property"`
	Tier        string   `json:"tier"`
	Seed        uint64   `json:"seed"`
	Workers     int      `json:"workers"`
	Index       int      `json:"index"`
	BudgetS     float64  `json:"budget_s"`
	MaxRuns     int      `json:"max_runs"`
	Out         string   `json:"out"`
	Evidence    string   `json:"evidence"`
	ReplayDir   string   `json:"replay_dir"`
	KnownFile   string   `json:"known_file"`
	ReplayFile  string   `json:"replay_file"`
	Known       []string `json:"known"`
	InstrReport string   `json:"instr_report"`
	Toolchain   string   `json:"toolchain"`
	TreeID      string   `json:"tree_id"`
	Scenario    string   `json:"scenario"` // restrict to one scenario (optional)
	Engine      string   `json:"engine"`   // "A" (bubble/go1.26) or "B" (race/go1.23)
	// HangS: a single run that is still executing after this many seconds of wall
	// time is reported as a hang candidate (0: default 60; runs take milliseconds).
	HangS float64 `json:"hang_s"`
	// Skip: scenarios this engine cannot schedule on this tree (a task blocks in a
	// primitive outside the simulator's control, see hang.go); their runs are left out.
	Skip []string `json:"skip,omitempty"`
}

// ReplayFile is the on-disk format of a violation's replay: scenario + choice trace.
type ReplayFile struct {
	Property string   `json:"property"`
	Scenario string   `json:"scenario"`
	Tier     string   `json:"tier"`
	Seed     uint64   `json:"seed"`
	Run      int      `json:"run"`
	Class    string   `json:"class"`
	Detail   string   `json:"detail"`
	Choices  []uint32 `json:"choices"`
	Kinds    []string `json:"kinds,omitempty"`
	Log      []string `json:"event_log,omitempty"`
	LogHash  uint64   `json:"event_log_hash"`
	TreeID   string   `json:"tree_id,omitempty"`
	Engine   string   `json:"engine,omitempty"`
	OrigLen  int      `json:"original_trace_len,omitempty"`
	// FromSeed: the run never finished, so there is no choice trace; the replay draws
	// from the generator seeded with Seed, which reproduces the same execution.
	FromSeed bool `json:"from_seed,omitempty"`
}

type agg struct {
	Runs      int `json:"runs"`
	Overruns  int `json:"overruns"`
	Restarted int `json:"restarted"` // worker processes that died without a verdict and were run again
	// Unschedulable: scenarios left out because a run of theirs stopped moving with a task
	// blocked in an operation the simulator does not control (scenario -> where)
	Unschedulable map[string]string `json:"unschedulable,omitempty"`
	Retired       int               `json:"retired"` // workers that stopped early after a run whose goroutines did not exit (engine B)
	Ops           int               `json:"ops"`
	Steps         int               `json:"steps"`
	SimNanos      int64             `json:"sim_nanos"`
	Faults        map[string]int    `json:"faults"`
	Probes        map[string]int    `json:"probes"`
	Lin           map[string]int    `json:"lin"`
	PerScen       map[string]int    `json:"per_scenario"`
	Shapes        []uint64          `json:"shapes"`
	Scheds        []uint64          `json:"scheds"`
	States        []uint64          `json:"states"`
	KnownHits     map[string]int    `json:"known_hits"`
	Samples       [][]string        `json:"samples"`
	Violation     *Result           `json:"violation,omitempty"`
	ViolRun       int               `json:"viol_run"`
	Harness       string            `json:"harness,omitempty"`
	WallS         float64           `json:"wall_s"`
	Nontrivial    int               `json:"nontrivial"`
}

func addMap(dst, src map[string]int) {
	for k, v := range src {
		dst[k] += v
	}
}

func scenariosFor(all []*Scenario, a *Args) []*Scenario {
	var out []*Scenario
	for _, s := range all {
		if s.Property != a.Property {
			continue
		}
		if a.Scenario != "" && s.Name != a.Scenario {
			continue
		}
		out = append(out, s)
	}
	return out
}

func findScenario(all []*Scenario, name string) *Scenario {
	for _, s := range all {
		if s.Name == name {
			return s
		}
	}
	return nil
}

// schedule maps run index -> scenario (weighted round robin, deterministic).
func schedule(scns []*Scenario) []*Scenario {
	var wheel []*Scenario
	for _, s := range scns {
		w := s.Weight
		if w <= 0 {
			w = 1
		}
		for i := 0; i < w; i++ {
			wheel = append(wheel, s)
		}
	}
	return wheel
}

// Main is the entry point of every process of the runner; it never returns.
func Main(all []*Scenario) {
	var a Args
	if err := json.Unmarshal([]byte(os.Getenv("VERIF_ARGS")), &a); err != nil {
		fmt.Fprintln(os.Stderr, "bad VERIF_ARGS:", err)
		os.Exit(2)
	}
	switch a.Mode {
	case "worker":
		os.Exit(worker(all, &a))
	case "replay":
		os.Exit(replay(all, &a))
	case "shrink":
		os.Exit(shrink(all, &a))
	case "driver":
		os.Exit(driver(all, &a))
	case "dettest":
		os.Exit(dettest(all, &a))
	case "showrun":
		// prints the event log of run number a.Index (debugging aid)
		scns := scenariosFor(all, &a)
		wheel := schedule(scns)
		for k := a.MaxRuns; k > 0 && k <= a.Index; k++ { // optionally run k = MaxRuns..Index-1 first, in the same process
			if k < a.Index {
				sd := mixSeed(a.Seed, k)
				RunOne(wheel[k%len(wheel)], a.Tier, sd, NewChoices(sd), false)
			}
		}
		scn := wheel[a.Index%len(wheel)]
		seed := mixSeed(a.Seed, a.Index)
		res := RunOne(scn, a.Tier, seed, NewChoices(seed), true)
		for _, l := range res.Log {
			fmt.Println(l)
		}
		fmt.Printf("== %s loghash=%x sched=%x trace=%d violation=%v harness=%q\n", scn.Name, res.LogHash, res.SigSched, len(res.Trace), res.Violation, res.Harness)
		os.Exit(0)
	case "list":
		for _, s := range all {
			fmt.Printf("%s %s bubble=%v\n", s.Property, s.Name, s.Bubble)
		}
		os.Exit(0)
	}
	fmt.Fprintln(os.Stderr, "unknown mode", a.Mode)
	os.Exit(2)
}

// Hang detection. A run is a few milliseconds of work (the slowest families, with a
// linearizability check, stay under a few seconds); one that is still executing
// after hangLimit seconds of wall time is a candidate for "does not terminate".
// The driver confirms a candidate by replaying its seed in two fresh processes
// under the same limit before it is reported.
type runMark struct {
	Run      int
	Scenario string
	Seed     uint64
	Start    time.Time
}

type hangReport struct {
	Run      int     `json:"run"`
	Scenario string  `json:"scenario"`
	Seed     uint64  `json:"seed"`
	Seconds  float64 `json:"seconds"`
	hangVerdict
}

// staticAfter: how long a run must have been executing before it is looked at for the
// first time (a run in which nothing moves is not going to start moving again).
const staticAfter = 8 * time.Second

func (a *Args) hangLimit() time.Duration {
	if a.HangS > 0 {
		return time.Duration(a.HangS * float64(time.Second))
	}
	return 60 * time.Second
}

func hangWatch(cur *atomic.Pointer[runMark], limit time.Duration, onHang func(*runMark, time.Duration, hangVerdict)) {
	var looked *runMark
	for {
		time.Sleep(500 * time.Millisecond)
		m := cur.Load()
		if m == nil {
			continue
		}
		el := time.Since(m.Start)
		if el > limit {
			v := classifyHang()
			if cur.Load() != m {
				continue // it ended while being looked at
			}
			onHang(m, el, v)
			return
		}
		if el > min(staticAfter, limit) && looked != m {
			looked = m
			if v := classifyHang(); v.artifact() && cur.Load() == m {
				onHang(m, el, v)
				return
			}
		}
	}
}

func worker(all []*Scenario, a *Args) int {
	scns := scenariosFor(all, a)
	if len(scns) == 0 {
		fmt.Fprintln(os.Stderr, "no scenarios for", a.Property)
		return 2
	}
	wheel := schedule(scns)
	start := time.Now()
	g := &agg{Faults: map[string]int{}, Probes: map[string]int{}, Lin: map[string]int{}, PerScen: map[string]int{}, KnownHits: map[string]int{}, ViolRun: -1}
	shapes := map[uint64]struct{}{}
	scheds := map[uint64]struct{}{}
	states := map[uint64]struct{}{}
	sampled := map[string]bool{}
	var cur atomic.Pointer[runMark]
	go hangWatch(&cur, a.hangLimit(), func(m *runMark, el time.Duration, v hangVerdict) {
		data, _ := json.Marshal(hangReport{Run: m.Run, Scenario: m.Scenario, Seed: m.Seed, Seconds: el.Seconds(), hangVerdict: v})
		os.WriteFile(a.Out+".hang", data, 0o644)
		if v.artifact() {
			os.Exit(5) // the simulator is holding back whoever would release the blocked task: not a verdict about the library (hang.go)
		}
		os.Exit(4)
	})
	skip := map[string]bool{}
	for _, n := range a.Skip {
		skip[n] = true
	}
	for k := a.Index; a.MaxRuns <= 0 || k < a.MaxRuns; k += a.Workers {
		if time.Since(start).Seconds() > a.BudgetS {
			break
		}
		scn := wheel[k%len(wheel)]
		if skip[scn.Name] {
			continue
		}
		seed := mixSeed(a.Seed, k)
		cur.Store(&runMark{Run: k, Scenario: scn.Name, Seed: seed, Start: time.Now()})
		res := RunOne(scn, a.Tier, seed, NewChoices(seed), false)
		cur.Store(nil)
		checkRace(res, scn.Property)
		g.Runs++
		g.PerScen[scn.Name]++
		if res.Harness != "" {
			g.Harness = fmt.Sprintf("run %d scenario %s seed %d: %s", k, scn.Name, seed, res.Harness)
			break
		}
		if res.Overrun {
			g.Overruns++
			if res.Poisoned {
				g.Retired = 1
				break
			}
			continue
		}
		g.Ops += res.Stats.Ops
		g.Steps += res.Stats.Steps
		g.SimNanos += res.Stats.SimNanos
		addMap(g.Faults, res.Stats.Faults)
		addMap(g.Probes, res.Stats.Probes)
		addMap(g.Lin, res.Stats.Lin)
		if res.Stats.Ops > 0 {
			if _, ok := shapes[res.SigShape]; !ok && len(shapes) < 400000 {
				shapes[res.SigShape] = struct{}{}
			}
		}
		if res.Stats.Steps > 0 && len(scheds) < 400000 {
			scheds[res.SigSched] = struct{}{}
		}
		for _, st := range res.States {
			if len(states) < 400000 {
				states[st] = struct{}{}
			}
		}
		if !sampled[scn.Name] && len(res.Sample) > 0 && a.Index == 0 {
			sampled[scn.Name] = true
			g.Samples = append(g.Samples, append([]string{"scenario " + scn.Name + fmt.Sprintf(" seed=%d", seed)}, res.Sample...))
		}
		if res.Violation != nil {
			if matchKnown(res.Violation.Class, a.Known) {
				g.KnownHits[res.Violation.Class]++
				continue
			}
			g.Violation = res
			g.ViolRun = k
			break
		}
	}
	for k := range shapes {
		g.Shapes = append(g.Shapes, k)
	}
	for k := range scheds {
		g.Scheds = append(g.Scheds, k)
	}
	for k := range states {
		g.States = append(g.States, k)
	}
	g.WallS = time.Since(start).Seconds()
	data, _ := json.Marshal(g)
	if err := os.WriteFile(a.Out, data, 0o644); err != nil {
		fmt.Fprintln(os.Stderr, err)
		return 2
	}
	if g.Harness != "" {
		return 2
	}
	return 0
}

func readReplay(path string) (*ReplayFile, error) {
	data, err := os.ReadFile(path)
	if err != nil {
		return nil, err
	}
	var rf ReplayFile
	if err := json.Unmarshal(data, &rf); err != nil {
		return nil, err
	}
	return &rf, nil
}

// replay re-executes a replay file and writes the Result to a.Out (if set). Exit 1
// if the recorded violation class reproduces, 0 if the run is clean, 3 if it
// fails differently.
func replay(all []*Scenario, a *Args) int {
	rf, err := readReplay(a.ReplayFile)
	if err != nil {
		fmt.Fprintln(os.Stderr, err)
		return 2
	}
	scn := findScenario(all, rf.Scenario)
	if scn == nil {
		fmt.Fprintln(os.Stderr, "unknown scenario", rf.Scenario)
		return 2
	}
	choices := func() *Choices {
		if rf.FromSeed {
			return NewChoices(rf.Seed)
		}
		return NewReplay(rf.Choices)
	}
	var cur atomic.Pointer[runMark]
	cur.Store(&runMark{Scenario: scn.Name, Seed: rf.Seed, Start: time.Now()})
	go hangWatch(&cur, a.hangLimit(), func(m *runMark, el time.Duration, v hangVerdict) {
		if v.artifact() {
			fmt.Printf("replay: the run did not finish within %.0f s of wall time, and nothing in it moves: %s\nthis engine cannot schedule the scenario on this tree (a task is blocked in an operation the simulator does not control); not a verdict about the library\n", el.Seconds(), v.Where)
			os.Exit(3)
		}
		fmt.Printf("replay: %s %s/hang/%s\nthe run did not finish within %.0f s of wall time\n", scn.Property, scn.Property, scn.Name, el.Seconds())
		if strings.Contains(rf.Class, "/hang/") {
			os.Exit(1)
		}
		os.Exit(3)
	})
	res := RunOne(scn, rf.Tier, rf.Seed, choices(), true)
	cur.Store(nil)
	checkRace(res, scn.Property)
	if EngineB && res.Violation == nil && res.Harness == "" && !rf.FromSeed {
		// Race detection depends on happens-before edges, and the first run of a fresh
		// process creates many incidental ones (lazily initialised caches in encoding/json,
		// net/http, regexp ... are filled by whichever task gets there first), which can
		// mask a race that a warmed-up worker process reports. The same trace is therefore
		// executed a second time in the now warm process.
		res2 := RunOne(scn, rf.Tier, rf.Seed, NewReplay(rf.Choices), true)
		checkRace(res2, scn.Property)
		if res2.Violation != nil || res2.Harness != "" {
			res = res2
		}
	}
	if a.Out != "" {
		data, _ := json.Marshal(res)
		os.WriteFile(a.Out, data, 0o644)
	}
	if res.Harness != "" {
		fmt.Fprintln(os.Stderr, res.Harness)
		return 2
	}
	if res.Violation == nil {
		fmt.Printf("replay: no violation (scenario %s)\n", rf.Scenario)
		return 0
	}
	fmt.Printf("replay: %s %s\n%s\n", res.Violation.Property, res.Violation.Class, res.Violation.Detail)
	if os.Getenv("VERIF_REPLAY_VERBOSE") != "" {
		for _, l := range res.Log {
			fmt.Println("  ", l)
		}
	}
	if res.Violation.Class == rf.Class {
		return 1
	}
	return 3
}

func selfExe() string {
	exe, err := os.Executable()
	if err != nil {
		return os.Args[0]
	}
	return exe
}

var spawnCount atomic.Int64

func spawn(a *Args, stdout, stderr *os.File) *exec.Cmd {
	data, _ := json.Marshal(a)
	cmd := exec.Command(selfExe(), "-test.run", "^TestSim$", "-test.timeout", "0", "-test.cpu", "1")
	raceLog := filepath.Join(os.TempDir(), fmt.Sprintf("verif-race-%d-%d", os.Getpid(), spawnCount.Add(1)))
	cmd.Env = append(os.Environ(), "VERIF_ARGS="+string(data), "GOMAXPROCS=1", "VERIF_RACE_LOG="+raceLog, "GORACE=log_path="+raceLog+" halt_on_error=0 exitcode=0")
	cmd.Stdout = stdout
	cmd.Stderr = stderr
	return cmd
}

type knownFinding struct {
	Status   string `json:"status"` // known | fixed
	Property string `json:"property"`
	Class    string `json:"class"`
	What     string `json:"what"`
	Replay   string `json:"replay,omitempty"`
	Commit   string `json:"commit,omitempty"`
}

type knownFile struct {
	Findings []knownFinding `json:"findings"`
}

func loadKnown(path, prop string) []knownFinding {
	var kf knownFile
	data, err := os.ReadFile(path)
	if err != nil {
		return nil
	}
	if err := json.Unmarshal(data, &kf); err != nil {
		fmt.Fprintln(os.Stderr, "known findings file is malformed:", err)
		os.Exit(2)
	}
	var out []knownFinding
	for _, f := range kf.Findings {
		if f.Property == prop && f.Status == "known" {
			out = append(out, f)
		}
	}
	return out
}

func driver(all []*Scenario, a *Args) int {
	start := time.Now()
	scns := scenariosFor(all, a)
	if len(scns) == 0 {
		fmt.Fprintln(os.Stderr, "no scenarios registered for", a.Property)
		return 2
	}
	tmp, err := os.MkdirTemp("", "verif-run-")
	if err != nil {
		fmt.Fprintln(os.Stderr, err)
		return 2
	}
	defer os.RemoveAll(tmp)

	// Known findings: each listed reproducer is replayed first.
	known := loadKnown(a.KnownFile, a.Property)
	var knownClasses []string
	knownLines := 0
	for _, kf := range known {
		knownClasses = append(knownClasses, kf.Class)
		if kf.Replay == "" {
			continue
		}
		ra := *a
		ra.Mode = "replay"
		ra.ReplayFile = filepath.Join(filepath.Dir(a.KnownFile), kf.Replay)
		ra.Out = filepath.Join(tmp, "known.json")
		cmd := spawn(&ra, nil, os.Stderr)
		err := cmd.Run()
		code := 0
		if ee, ok := err.(*exec.ExitError); ok {
			code = ee.ExitCode()
		} else if err != nil {
			fmt.Fprintln(os.Stderr, "cannot replay known finding:", err)
			return 2
		}
		switch code {
		case 1:
			fmt.Printf("KNOWN-FINDING: property=%s %s [class %s, reproducer %s]\n", a.Property, kf.What, kf.Class, kf.Replay)
			knownLines++
		case 0:
			fmt.Printf("note: known finding %q no longer reproduces (reproducer %s)\n", kf.Class, kf.Replay)
		case 2:
			fmt.Fprintln(os.Stderr, "harness error while replaying known finding", kf.Replay)
			return 2
		default:
			fmt.Printf("note: reproducer %s now fails differently\n", kf.Replay)
		}
	}

	// Exploration.
	var cmds []*exec.Cmd
	for i := 0; i < a.Workers; i++ {
		wa := *a
		wa.Mode = "worker"
		wa.Index = i
		wa.Known = knownClasses
		wa.Out = filepath.Join(tmp, fmt.Sprintf("w%d.json", i))
		errf, _ := os.Create(filepath.Join(tmp, fmt.Sprintf("w%d.err", i)))
		cmd := spawn(&wa, errf, errf)
		if err := cmd.Start(); err != nil {
			fmt.Fprintln(os.Stderr, err)
			return 2
		}
		cmds = append(cmds, cmd)
	}
	var watchdogFired atomic.Bool
	var procMu sync.Mutex // guards cmds (workers that are started again are added)
	watchdog := time.AfterFunc(time.Duration((a.BudgetS*3+120)*float64(time.Second)), func() {
		watchdogFired.Store(true)
		procMu.Lock()
		for _, c := range cmds {
			c.Process.Kill()
		}
		procMu.Unlock()
	})
	total := &agg{Faults: map[string]int{}, Probes: map[string]int{}, Lin: map[string]int{}, PerScen: map[string]int{}, KnownHits: map[string]int{}, ViolRun: -1}
	shapes := map[uint64]struct{}{}
	scheds := map[uint64]struct{}{}
	states := map[uint64]struct{}{}
	broken := ""
	var hang *hangReport
	restarted := 0
	unschedulable := map[string]string{}

	// Each worker is waited for (and, where that is called for, started again) on its own.
	type workerEnd struct {
		data      []byte
		rerr      error
		err       error
		errOut    []byte
		restarted int
		unsched   map[string]string
		broken    string
	}
	first := slices.Clone(cmds)
	ends := make([]workerEnd, len(first))
	var wg sync.WaitGroup
	for i := range first {
		wg.Add(1)
		go func(i int, cmd *exec.Cmd) {
			defer wg.Done()
			e := &ends[i]
			e.unsched = map[string]string{}
			outPath := filepath.Join(tmp, fmt.Sprintf("w%d.json", i))
			errPath := filepath.Join(tmp, fmt.Sprintf("w%d.err", i))
			var skip []string
			again := func() *exec.Cmd {
				wa := *a
				wa.Mode = "worker"
				wa.Index = i
				wa.Known = knownClasses
				wa.Out = outPath
				wa.Skip = skip
				if rem := a.BudgetS - time.Since(start).Seconds(); rem > 10 {
					wa.BudgetS = rem
				} else {
					wa.BudgetS = 10
				}
				errf, _ := os.Create(errPath)
				c2 := spawn(&wa, errf, errf)
				procMu.Lock()
				cmds = append(cmds, c2)
				procMu.Unlock()
				return c2
			}
			e.err = cmd.Wait()
			for attempt := 0; ; attempt++ {
				e.errOut, _ = os.ReadFile(errPath)
				e.data, e.rerr = os.ReadFile(outPath)
				ee, exited := e.err.(*exec.ExitError)
				if e.rerr == nil || !exited || watchdogFired.Load() {
					return
				}
				switch code := ee.ExitCode(); {
				case code == 5 && attempt < 8:
					// A run in which nothing moves any more (hang.go): the scenario cannot be
					// scheduled by this engine on this tree. The worker's share is executed
					// again without that scenario.
					var hr hangReport
					hd, _ := os.ReadFile(outPath + ".hang")
					if json.Unmarshal(hd, &hr) != nil || hr.Scenario == "" {
						e.broken = fmt.Sprintf("worker %d reported a run that does not move but left no description", i)
						return
					}
					if hr.Where == "" {
						e.broken = fmt.Sprintf("worker %d: run %d of %s (seed %d) stopped moving with every task parked by the simulator itself", i, hr.Run, hr.Scenario, hr.Seed)
						return
					}
					os.Remove(outPath + ".hang")
					e.unsched[hr.Scenario] = hr.Where
					skip = append(skip, hr.Scenario)
					e.err = again().Run()
				case code != 4 && code != 5 && e.restarted == 0:
					// The worker process died without a verdict (the runtime could not get a
					// thread or memory, or it was killed from outside). A worker is a pure function of
					// (seed, index), so its share is executed again from the start, once; if it dies
					// again the trouble is reported.
					firstErr := tail(string(e.errOut), 1500)
					e.restarted++
					e.err = again().Run()
					fmt.Fprintf(os.Stderr, "note: worker %d died without a result (exit %d) and was run again; its first stderr ended with:\n%s\n", i, code, firstErr)
				default:
					return
				}
			}
		}(i, first[i])
	}
	wg.Wait()
	for i := range ends {
		e := &ends[i]
		err, errOut, data, rerr := e.err, e.errOut, e.data, e.rerr
		restarted += e.restarted
		for k, v := range e.unsched {
			unschedulable[k] = v
		}
		if e.broken != "" {
			broken = e.broken
			continue
		}
		if rerr != nil {
			code := -1
			if ee, ok := err.(*exec.ExitError); ok {
				code = ee.ExitCode()
			}
			if hd, herr := os.ReadFile(filepath.Join(tmp, fmt.Sprintf("w%d.json.hang", i))); code == 4 && herr == nil {
				var hr hangReport
				if json.Unmarshal(hd, &hr) == nil && (hang == nil || hr.Run < hang.Run) {
					hang = &hr
				}
				continue
			}
			broken = fmt.Sprintf("worker %d died (exit %d) without a result: %v\n%s", i, code, err, tail(string(errOut), 4000))
			continue
		}
		var g agg
		if err := json.Unmarshal(data, &g); err != nil {
			broken = fmt.Sprintf("worker %d wrote a malformed result: %v", i, err)
			continue
		}
		if g.Harness != "" {
			broken = g.Harness
		}
		total.Runs += g.Runs
		total.Overruns += g.Overruns
		total.Retired += g.Retired
		total.Ops += g.Ops
		total.Steps += g.Steps
		total.SimNanos += g.SimNanos
		addMap(total.Faults, g.Faults)
		addMap(total.Probes, g.Probes)
		addMap(total.Lin, g.Lin)
		addMap(total.PerScen, g.PerScen)
		addMap(total.KnownHits, g.KnownHits)
		for _, x := range g.Shapes {
			shapes[x] = struct{}{}
		}
		for _, x := range g.Scheds {
			scheds[x] = struct{}{}
		}
		for _, x := range g.States {
			states[x] = struct{}{}
		}
		total.Samples = append(total.Samples, g.Samples...)
		if g.Violation != nil && (total.Violation == nil || g.ViolRun < total.ViolRun) {
			total.Violation = g.Violation
			total.ViolRun = g.ViolRun
		}
	}
	watchdog.Stop()
	total.Restarted = restarted
	total.Unschedulable = unschedulable
	if broken != "" {
		fmt.Fprintln(os.Stderr, "HARNESS ERROR (exit 2, not a violation):", broken)
		return 2
	}

	violations := 0
	replayPath := ""
	if total.Violation == nil && hang != nil {
		rp, detail, err := confirmHang(a, tmp, hang)
		if err != nil {
			fmt.Fprintln(os.Stderr, "HARNESS ERROR (exit 2): a worker reported a run that did not finish, but", err)
			return 2
		}
		violations, replayPath = 1, rp
		total.Violation = &Result{Scenario: hang.Scenario, Seed: hang.Seed, Violation: &Violation{Property: a.Property, Class: a.Property + "/hang/" + hang.Scenario, Detail: detail}}
		total.ViolRun = hang.Run
	} else if total.Violation != nil {
		violations = 1
		rp, err := minimiseAndConfirm(a, tmp, total.Violation, total.ViolRun)
		if err != nil {
			fmt.Fprintln(os.Stderr, "HARNESS ERROR (exit 2): could not confirm violation by replay:", err)
			return 2
		}
		replayPath = rp
	}
	if err := writeEvidence(a, total, len(shapes), len(scheds), len(states), violations, time.Since(start).Seconds(), scns, knownLines); err != nil {
		fmt.Fprintln(os.Stderr, "cannot write evidence:", err)
		return 2
	}
	fmt.Printf("%s %s: %d runs, %d ops, %d sched steps, %d distinct shapes, %d distinct schedules, %d model states, sim time %.1fs, wall %.1fs\n",
		a.Property, a.Tier, total.Runs, total.Ops, total.Steps, len(shapes), len(scheds), len(states), float64(total.SimNanos)/1e9, time.Since(start).Seconds())
	if len(total.Faults) > 0 {
		fmt.Printf("  faults fired: %v\n", total.Faults)
	}
	for _, name := range sortedStrKeys(total.Unschedulable) {
		fmt.Printf("WARN: engine %s cannot schedule scenario %s on this tree and left it out: a task is blocked in an operation the simulator does not control (%s); this is not a verdict about the library\n", a.Engine, name, total.Unschedulable[name])
	}
	if total.Retired > 0 {
		fmt.Printf("  note: %d worker process(es) retired early after a run whose goroutines did not exit within 60 s of real time (run discarded)\n", total.Retired)
	}
	if len(total.KnownHits) > 0 {
		fmt.Printf("  runs discarded because they hit a listed known finding: %v\n", total.KnownHits)
	}
	if violations > 0 {
		fmt.Printf("%s\n", total.Violation.Violation.Detail)
		fmt.Printf("VIOLATION property=%s replay=%s\n", a.Property, replayPath)
		return 1
	}
	return 0
}

func tail(s string, n int) string {
	if len(s) > n {
		return s[len(s)-n:]
	}
	return s
}

// minimiseAndConfirm shrinks the violating choice trace in a separate process,
// then replays the minimised trace in two fresh processes and requires the same
// violation class and identical event-log hashes before writing the replay file.
func minimiseAndConfirm(a *Args, tmp string, res *Result, run int) (string, error) {
	rf := &ReplayFile{
		Property: a.Property, Scenario: res.Scenario, Tier: a.Tier, Seed: res.Seed, Run: run,
		Class: res.Violation.Class, Detail: res.Violation.Detail, Choices: res.Trace,
		TreeID: a.TreeID, Engine: a.Engine, OrigLen: len(res.Trace),
	}
	raw := filepath.Join(tmp, "raw.json")
	data, _ := json.MarshalIndent(rf, "", " ")
	os.WriteFile(raw, data, 0o644)
	min := filepath.Join(tmp, "min.json")
	sa := *a
	sa.Mode = "shrink"
	sa.ReplayFile = raw
	sa.Out = min
	if !strings.HasPrefix(rf.Class, "race:") {
		// (the race detector reports each pair of stacks once per process, so a race
		// cannot be re-observed by in-process replays; it is confirmed in fresh ones)
		cmd := spawn(&sa, nil, os.Stderr)
		cmd.Run()
	}
	use := raw
	if _, err := os.Stat(min); err == nil {
		use = min
	}
	// confirm twice in fresh processes
	var hashes []uint64
	var last *Result
	for i := 0; i < 2; i++ {
		ra := *a
		ra.Mode = "replay"
		ra.ReplayFile = use
		ra.Out = filepath.Join(tmp, fmt.Sprintf("confirm%d.json", i))
		cmd := spawn(&ra, nil, nil)
		err := cmd.Run()
		code := 0
		if ee, ok := err.(*exec.ExitError); ok {
			code = ee.ExitCode()
		}
		if code != 1 {
			if use == min {
				// fall back to the unshrunk trace once
				use = raw
				hashes = nil
				i = -1
				continue
			}
			os.MkdirAll(a.ReplayDir, 0o755)
			keep := filepath.Join(a.ReplayDir, fmt.Sprintf("%s-%s-%d-%d.unconfirmed.json", a.Property, a.Tier, a.Seed, run))
			if d, err := os.ReadFile(use); err == nil {
				os.WriteFile(keep, d, 0o644)
			}
			return "", fmt.Errorf("replay of %s (kept as %s) in a fresh process exited %d instead of reproducing %s", use, keep, code, rf.Class)
		}
		d, _ := os.ReadFile(ra.Out)
		var r Result
		json.Unmarshal(d, &r)
		hashes = append(hashes, r.LogHash)
		last = &r
	}
	if len(hashes) == 2 && hashes[0] != hashes[1] {
		return "", fmt.Errorf("two replays of the same file produced different event logs (%x vs %x): nondeterminism in the harness", hashes[0], hashes[1])
	}
	final, err := readReplay(use)
	if err != nil {
		return "", err
	}
	if last != nil {
		final.Log = last.Log
		final.LogHash = last.LogHash
		if last.Violation != nil {
			final.Detail = last.Violation.Detail
		}
		final.Choices = last.Trace
	}
	os.MkdirAll(a.ReplayDir, 0o755)
	path := filepath.Join(a.ReplayDir, fmt.Sprintf("%s-%s-%d-%d.json", a.Property, a.Tier, a.Seed, run))
	data, _ = json.MarshalIndent(final, "", " ")
	if err := os.WriteFile(path, data, 0o644); err != nil {
		return "", err
	}
	return path, nil
}

// confirmHang replays the seed of a run that did not finish in two fresh processes,
// each under the same wall-clock limit; both must hit the limit again.
func confirmHang(a *Args, tmp string, h *hangReport) (string, string, error) {
	class := a.Property + "/hang/" + h.Scenario
	detail := fmt.Sprintf("run %d of scenario %s (seed %d) was still executing after %.0f s of wall time, in the worker and again in two fresh processes replaying the same seed; runs of this scenario normally take milliseconds. There is no choice trace to minimise (the run never ends); the replay draws from the seed.", h.Run, h.Scenario, h.Seed, a.hangLimit().Seconds())
	rf := &ReplayFile{Property: a.Property, Scenario: h.Scenario, Tier: a.Tier, Seed: h.Seed, Run: h.Run, Class: class, Detail: detail, FromSeed: true, TreeID: a.TreeID, Engine: a.Engine}
	os.MkdirAll(a.ReplayDir, 0o755)
	path := filepath.Join(a.ReplayDir, fmt.Sprintf("%s-%s-%d-%d.json", a.Property, a.Tier, a.Seed, h.Run))
	data, _ := json.MarshalIndent(rf, "", " ")
	if err := os.WriteFile(path, data, 0o644); err != nil {
		return "", "", err
	}
	for i := 0; i < 2; i++ {
		ra := *a
		ra.Mode = "replay"
		ra.ReplayFile = path
		ra.Out = ""
		cmd := spawn(&ra, nil, nil)
		err := cmd.Run()
		code := 0
		if ee, ok := err.(*exec.ExitError); ok {
			code = ee.ExitCode()
		}
		if code != 1 {
			os.Rename(path, strings.TrimSuffix(path, ".json")+".unconfirmed.json")
			return "", "", fmt.Errorf("replaying seed %d of %s in a fresh process exited %d instead of hitting the limit again", h.Seed, h.Scenario, code)
		}
	}
	return path, detail, nil
}

// dettest: determinism self-test. Runs the first MaxRuns runs and prints one line
// per run with the event-log hash; the caller diffs the output of several
// processes at different GOMAXPROCS.
func dettest(all []*Scenario, a *Args) int {
	scns := scenariosFor(all, a)
	wheel := schedule(scns)
	for k := 0; k < a.MaxRuns; k++ {
		scn := wheel[k%len(wheel)]
		seed := mixSeed(a.Seed, k)
		res := RunOne(scn, a.Tier, seed, NewChoices(seed), false)
		v := "-"
		if res.Violation != nil {
			v = res.Violation.Class
		}
		if res.Harness != "" {
			v = "HARNESS:" + strings.SplitN(res.Harness, "\n", 2)[0]
		}
		fmt.Printf("%d %s %x %x %d %s\n", k, scn.Name, res.LogHash, res.SigSched, len(res.Trace), v)
	}
	return 0
}

func sortedU64(m map[uint64]struct{}) []uint64 {
	out := make([]uint64, 0, len(m))
	for k := range m {
		out = append(out, k)
	}
	sort.Slice(out, func(i, j int) bool { return out[i] < out[j] })
	return out
}

func sortedStrKeys(m map[string]string) []string {
	ks := make([]string, 0, len(m))
	for k := range m {
		ks = append(ks, k)
	}
	sort.Strings(ks)
	return ks
}
