package core

// Choices is the single source of every random decision of a simulated run:
// generated operations and arguments, schedule picks, faults, delays, map orders
// and select preferences are all draws from one PRNG seeded from VERIF_SEED, and
// every draw is appended to the choice trace. Replaying feeds the recorded values
// back; a recorded value that is out of range for the bound now requested (or a
// trace that has run out) yields 0, the "simplest" choice, which is what makes
// trace-level minimisation sound.
//
// The generator is splitmix64-seeded xoshiro256** implemented here so that the
// stream cannot change with the toolchain. No method reads a clock or allocates
// through a synchronising primitive; all of them are marked norace because in
// mode B (race detector under a serial schedule) they are called by several
// goroutines that are ordered only by raw pipe hand-offs.
type Choices struct {
	s       [4]uint64
	Trace   []uint32 // drawn values
	Bounds  []uint32 // the n each value was drawn under (for minimisation)
	Kinds   []string // what each draw was for (diagnostics only)
	replay  []uint32
	pos     int
	Replay  bool
	Exhaust int // draws made after the replay trace ran out
}

//go:norace
func splitmix(x *uint64) uint64 {
	*x += 0x9e3779b97f4a7c15
	z := *x
	z = (z ^ (z >> 30)) * 0xbf58476d1ce4e5b9
	z = (z ^ (z >> 27)) * 0x94d049bb133111eb
	return z ^ (z >> 31)
}

// NewChoices returns a choice source seeded with seed.
func NewChoices(seed uint64) *Choices {
	c := &Choices{}
	x := seed
	for i := range c.s {
		c.s[i] = splitmix(&x)
	}
	return c
}

// NewReplay returns a choice source that replays trace.
func NewReplay(trace []uint32) *Choices {
	return &Choices{replay: trace, Replay: true}
}

//go:norace
func rotl(x uint64, k uint) uint64 { return (x << k) | (x >> (64 - k)) }

//go:norace
func (c *Choices) next() uint64 {
	s := &c.s
	r := rotl(s[1]*5, 7) * 9
	t := s[1] << 17
	s[2] ^= s[0]
	s[3] ^= s[1]
	s[1] ^= s[2]
	s[0] ^= s[3]
	s[2] ^= t
	s[3] = rotl(s[3], 45)
	return r
}

// Int returns a value in [0, n). n <= 1 returns 0 without drawing.
//
//go:norace
func (c *Choices) Int(kind string, n int) int {
	if n <= 1 {
		return 0
	}
	var v uint32
	if c.Replay {
		if c.pos < len(c.replay) {
			v = c.replay[c.pos]
			if int(v) >= n {
				v = 0
			}
		} else {
			c.Exhaust++
		}
		c.pos++
	} else {
		v = uint32(c.next() % uint64(n))
	}
	c.Trace = append(c.Trace, v)
	c.Bounds = append(c.Bounds, uint32(n))
	c.Kinds = append(c.Kinds, kind)
	return int(v)
}

// Bool returns true with probability num/den.
//
//go:norace
func (c *Choices) Bool(kind string, num, den int) bool {
	if num <= 0 {
		return false
	}
	if num >= den {
		return true
	}
	// value 0 must be the "simple" outcome (false), so true is the top of the range.
	return c.Int(kind, den) >= den-num
}

// Range returns a value in [lo, hi].
//
//go:norace
func (c *Choices) Range(kind string, lo, hi int) int {
	if hi <= lo {
		return lo
	}
	return lo + c.Int(kind, hi-lo+1)
}

// Pick returns an index into a weighted table.
//
//go:norace
func (c *Choices) Weighted(kind string, weights []int) int {
	total := 0
	for _, w := range weights {
		total += w
	}
	if total <= 0 {
		return 0
	}
	v := c.Int(kind, total)
	for i, w := range weights {
		if v < w {
			return i
		}
		v -= w
	}
	return len(weights) - 1
}

// Bytes returns n bytes. The content is derived from one draw (a tag) so that long
// payloads do not bloat the trace: byte i is a cheap function of (tag, i). Payloads
// are therefore unique per tag, which makes every read attributable to one write.
//
//go:norace
func (c *Choices) Bytes(kind string, n int) []byte {
	tag := uint64(c.Int(kind, 1<<30))
	b := make([]byte, n)
	x := tag*0x9e3779b97f4a7c15 + 1
	for i := range b {
		if i%8 == 0 {
			x = x*6364136223846793005 + 1442695040888963407
		}
		b[i] = byte(x >> (8 * uint(i%8)))
	}
	return b
}

// Perm returns a permutation of 0..n-1.
//
//go:norace
func (c *Choices) Perm(kind string, n int) []int {
	p := make([]int, n)
	for i := range p {
		p[i] = i
	}
	for i := 0; i < n-1; i++ {
		j := i + c.Int(kind, n-i)
		p[i], p[j] = p[j], p[i]
	}
	return p
}

// Fork derives an independent choice source from one draw. Used to give a
// pre-generated program its own stream.
func (c *Choices) Fork(kind string) *Choices {
	hi := uint64(c.Int(kind, 1<<30))
	lo := uint64(c.Int(kind, 1<<30))
	return NewChoices(hi<<30 | lo)
}
