package core

import (
	"regexp"
	"runtime"
	"sort"
	"strings"
	"time"
)

// What a run that does not finish is doing (DESIGN.md 13.7).
//
// A run that is still executing long after runs normally end is one of two things.
// Either something in it keeps running - a loop that never ends, in the library or
// between the library and a peer - and then it is a finding; or nothing in it runs
// any more: every goroutine sits in a blocking operation, and at least one of them
// in an operation the simulator does not schedule (a sync.WaitGroup, sync.Cond or
// sync.Once of the library, a channel operation under the serial scheduler of
// engine B, a mutex inside the standard library) while the simulator keeps other tasks
// parked. The second case says nothing about the library: a real deadlock of the library is seen as one by the simulator (its
// mutexes are simulated; in the bubble a set of goroutines that can never wake is
// reported by the bubble itself), whereas here the simulator is holding back the very
// task that would release the blocked one. Such a scenario cannot be scheduled by
// this engine on this tree; it is skipped, with a warning and a note in the
// evidence, and is never reported as a violation.
type hangVerdict struct {
	// Static: three snapshots of all goroutines, taken 150 ms apart, show no goroutine of
	// the simulation running and no goroutine moving.
	Static bool `json:"static"`
	// Where: for a static hang, the blocking operation(s) outside the simulator's
	// control that tasks sit in ("" if there is none).
	Where string `json:"where,omitempty"`
	// HeldBack: some task is parked by the simulator, waiting to be released. Only then
	// can a task that sits in a blocking operation be waiting for something the
	// simulator itself is withholding. With nobody held back (a scenario without a
	// scheduler, or the last task of a run) a block that never ends is the library's own.
	HeldBack bool `json:"held_back,omitempty"`
}

// artifact: the run stands still because of how the simulator schedules, not because of
// what the library does.
func (v hangVerdict) artifact() bool { return v.Static && v.Where != "" && v.HeldBack }

var goroutineHeader = regexp.MustCompile(`^goroutine (\d+) (?:gp=\S+ m=\S+ (?:mp=\S+ )?)?\[([^\]]*)\]:`)

type gInfo struct {
	id     string
	state  string
	frames []string // function lines, outermost last
}

func parseStacks(dump string) []gInfo {
	var out []gInfo
	for _, blk := range strings.Split(dump, "\n\n") {
		lines := strings.Split(strings.TrimSpace(blk), "\n")
		if len(lines) == 0 {
			continue
		}
		m := goroutineHeader.FindStringSubmatch(lines[0])
		if m == nil {
			continue
		}
		g := gInfo{id: m[1], state: m[2]}
		for _, l := range lines[1:] {
			if strings.HasPrefix(l, "\t") || strings.HasPrefix(l, "created by ") || l == "" {
				continue
			}
			// "pkg.func(args...)": keep the function name only
			if i := strings.LastIndex(l, "("); i > 0 {
				l = l[:i]
			}
			g.frames = append(g.frames, l)
		}
		out = append(out, g)
	}
	return out
}

// ofSimulation: the goroutine executes library or scenario code.
func (g gInfo) ofSimulation() bool {
	for _, f := range g.frames {
		if strings.HasPrefix(f, "cuelabs.dev/go/oci/") || strings.HasPrefix(f, "verifsim/props.") || strings.HasPrefix(f, "verifsim/reg.") || strings.HasPrefix(f, "verifsim/simnet.") {
			return true
		}
	}
	return false
}

// parkedBySimulator: the goroutine waits for the scheduler to release it.
func (g gInfo) parkedBySimulator() bool {
	for i, f := range g.frames {
		if i > 6 {
			break
		}
		if strings.HasPrefix(f, "verifsim/core.(*Sched).park") || strings.HasPrefix(f, "verifsim/core.rawRead") || strings.HasPrefix(f, "verifsim/core.(*Sched).block") || strings.HasPrefix(f, "verifsim/core.(*Sched).Spawn.func") {
			return true
		}
	}
	return false
}

// running: executing, or about to (a goroutine that sleeps is going to wake up by
// itself: a loop that sleeps between attempts is a loop).
func (g gInfo) running() bool {
	return strings.HasPrefix(g.state, "running") || strings.HasPrefix(g.state, "runnable") || strings.HasPrefix(g.state, "sleep")
}

// blockedOutside describes the blocking operation of a goroutine of the simulation
// that is not parked by the simulator ("" if it is parked or running).
func (g gInfo) blockedOutside() string {
	if !g.ofSimulation() || g.parkedBySimulator() || g.running() {
		return ""
	}
	at := ""
	for _, f := range g.frames {
		if strings.HasPrefix(f, "cuelabs.dev/go/oci/") && !strings.Contains(f, "/simhook.") {
			at = f
			break
		}
	}
	if at == "" {
		for _, f := range g.frames {
			if strings.HasPrefix(f, "verifsim/") {
				at = f
				break
			}
		}
	}
	st := g.state
	if i := strings.Index(st, ","); i > 0 {
		st = st[:i]
	}
	return st + " in " + at
}

func snapshot() string {
	buf := make([]byte, 1<<20)
	for {
		n := runtime.Stack(buf, true)
		if n < len(buf) {
			return string(buf[:n])
		}
		buf = make([]byte, 2*len(buf))
	}
}

// classifyHang looks at the process three times.
func classifyHang() hangVerdict {
	var sigs []string
	where := map[string]bool{}
	moving, heldBack := false, false
	for i := 0; i < 3; i++ {
		if i > 0 {
			time.Sleep(150 * time.Millisecond)
		}
		var sig []string
		for _, g := range parseStacks(snapshot()) {
			if g.running() && len(g.frames) == 0 {
				moving = true // running on another thread: its stack is not available
			}
			if g.parkedBySimulator() {
				heldBack = true
			}
			if !g.ofSimulation() {
				continue
			}
			if g.running() {
				moving = true
			}
			top := g.frames
			if len(top) > 8 {
				top = top[:8]
			}
			sig = append(sig, g.id+" "+strings.Join(top, "<"))
			if w := g.blockedOutside(); w != "" {
				where[w] = true
			}
		}
		sort.Strings(sig)
		sigs = append(sigs, strings.Join(sig, "\n"))
	}
	if moving || sigs[0] != sigs[1] || sigs[1] != sigs[2] {
		return hangVerdict{}
	}
	var ws []string
	for w := range where {
		ws = append(ws, w)
	}
	sort.Strings(ws)
	return hangVerdict{Static: true, Where: strings.Join(ws, "; "), HeldBack: heldBack}
}
