package core

import (
	"fmt"
	"hash/fnv"
	"runtime"
	"sort"
	"strings"
	"sync/atomic"
)

// Violation is a property violation found by an oracle. Class is a stable tag made of
// the oracle name and the structurally relevant part of the failing input; it never
// contains error message text, so a refactoring that rewords messages cannot change it.
type Violation struct {
	Property string `json:"property"`
	Class    string `json:"class"`
	Detail   string `json:"detail"`
}

func (v *Violation) Error() string { return v.Property + " " + v.Class + ": " + v.Detail }

// HarnessError is raised (by panic) when the harness itself is at fault. It is
// never reported as a violation: the process exits with status 2.
type HarnessError struct{ Msg string }

func (h *HarnessError) Error() string { return "harness error: " + h.Msg }

type abortRun struct{ why string }

type taskPanic struct {
	val any
	pcs []uintptr
}

// Stats are per-run counters; the driver sums them over all runs.
type Stats struct {
	Ops      int            // operations issued against the system under test
	Steps    int            // scheduler steps
	SimNanos int64          // simulated time covered
	Faults   map[string]int // fault kinds that actually fired
	Probes   map[string]int // "this rare condition was reached" counters
	Lin      map[string]int // porcupine outcomes
}

// Env is what a scenario gets for one simulated run.
type Env struct {
	Property string
	Scenario string
	Seed     uint64
	Tier     string
	C        *Choices
	Stats    Stats

	log       []string
	sigA      uint64 // signature of the run's shape (ops/faults), for distinct counting
	sigB      uint64 // signature of the schedule
	states    map[uint64]struct{}
	sample    []string
	logOn     bool
	failed    *Violation
	panicked  *taskPanic
	overrun   bool
	contended int
	deadlock  string
	Sched     *Sched
	// OnOp, if set by the scenario, is called whenever a step is recorded (before any
	// background work of that step is waited for).
	OnOp    func()
	cleanup []func()
	finally []func()
	randN   atomic.Uint32 // number of seeded "random" reads so far (see randBytes)
}

// randBytes stands in for crypto/rand: n seeded bytes, stamped with the number of the
// read. The library draws identifiers from crypto/rand and relies on two draws never
// being equal; seeded bytes alone would let the minimiser (which drives choices towards
// zero) make two upload ids collide, and a trace that fails because of that fails on any
// tree.
func (e *Env) randBytes(n int) []byte {
	b := append([]byte(nil), e.C.Bytes("rand", n)...)
	k := e.randN.Add(1)
	for i := 0; i < 4 && i < len(b); i++ {
		b[len(b)-1-i] ^= byte(k >> (8 * i))
	}
	return b
}

func newEnv(prop, scen, tier string, seed uint64, c *Choices, logOn bool) *Env {
	return &Env{
		Property: prop, Scenario: scen, Seed: seed, Tier: tier, C: c,
		Stats:  Stats{Faults: map[string]int{}, Probes: map[string]int{}, Lin: map[string]int{}},
		states: map[uint64]struct{}{},
		logOn:  logOn,
	}
}

// Logf appends an event to the run's event log. The log never draws from the PRNG
// and never reads a clock. Only kept in full when replaying / self-testing; its
// hash is always maintained.
func (e *Env) Logf(format string, a ...any) {
	s := fmt.Sprintf(format, a...)
	h := fnv.New64a()
	h.Write([]byte(s))
	e.sigB = e.sigB*1099511628211 ^ h.Sum64()
	if e.logOn {
		e.log = append(e.log, s)
	}
}

// Shape mixes a token describing what the run did (operation kind, fault kind,
// outcome class) into the run's shape signature; two runs with the same shape
// signature count once in distinct_nontrivial.
func (e *Env) Shape(tok string) {
	h := fnv.New64a()
	h.Write([]byte(tok))
	e.sigA = e.sigA*1099511628211 ^ h.Sum64()
}

// State records a canonical model state reached (for the distinct-states measure).
func (e *Env) State(canon string) {
	h := fnv.New64a()
	h.Write([]byte(canon))
	e.states[h.Sum64()] = struct{}{}
}

// Sample adds a line to the human-readable description of this run (kept for the
// evidence file's samples).
func (e *Env) Sample(format string, a ...any) {
	if len(e.sample) < 40 {
		e.sample = append(e.sample, fmt.Sprintf(format, a...))
	}
}

func (e *Env) Fault(kind string) { e.Stats.Faults[kind]++; e.Shape("fault:" + kind) }
func (e *Env) Probe(kind string) { e.Stats.Probes[kind]++ }
func (e *Env) Op(kind string) {
	e.Stats.Ops++
	e.Shape(kind)
	if e.Sched == nil {
		Settle()
	}
}

// Finally registers an oracle to be evaluated by the root goroutine after every task
// of the run has finished (outside the bubble; in engine B after the root has a
// happens-before edge from all tasks). It may call Failf.
func (e *Env) Finally(f func()) { e.finally = append(e.finally, f) }

// Cleanup registers a function run when the run ends (in reverse order).
func (e *Env) Cleanup(f func()) { e.cleanup = append(e.cleanup, f) }

// Failf reports a violation of the scenario's property and ends the run.
func (e *Env) Failf(class string, format string, a ...any) {
	v := &Violation{Property: e.Property, Class: class, Detail: fmt.Sprintf(format, a...)}
	panic(v)
}

// Harnessf reports a defect of the harness (never a violation).
func Harnessf(format string, a ...any) {
	panic(&HarnessError{Msg: fmt.Sprintf(format, a...)})
}

const libPrefix = "cuelabs.dev/go/oci/ociregistry"

// classifyPanic decides whether a recovered panic came from library code (a
// violation for properties that forbid panics - in practice any panic in library
// code is a defect, it is attributed to the property under check) or from the
// harness (exit 2). It walks the stack from the panic site outwards and takes the
// first frame that belongs to either.
func classifyPanic(pcs []uintptr) (inLib bool, site string, stack string) {
	frames := runtime.CallersFrames(pcs)
	var sb strings.Builder
	seenPanic := false
	decided := false
	for {
		f, more := frames.Next()
		fmt.Fprintf(&sb, "%s\n\t%s:%d\n", f.Function, f.File, f.Line)
		if f.Function == "runtime.gopanic" || f.Function == "runtime.panicmem" || f.Function == "runtime.sigpanic" {
			seenPanic = true
		} else if seenPanic && !decided {
			switch {
			case strings.HasPrefix(f.Function, libPrefix+"/simhook"):
			case strings.HasPrefix(f.Function, libPrefix):
				inLib, site, decided = true, trimFunc(f.Function), true
			case strings.HasPrefix(f.Function, "verifsim/"):
				inLib, site, decided = false, trimFunc(f.Function), true
			}
		}
		if !more {
			break
		}
	}
	return inLib, site, sb.String()
}

func trimFunc(s string) string {
	s = strings.TrimPrefix(s, libPrefix+"/")
	// drop generic instantiation noise and closure counters
	if i := strings.Index(s, "["); i >= 0 {
		s = s[:i]
	}
	for strings.HasSuffix(s, ".func1") || strings.HasSuffix(s, ".func2") || strings.HasSuffix(s, ".func3") {
		s = s[:len(s)-6]
	}
	return s
}

func sortedKeys(m map[string]int) []string {
	ks := make([]string, 0, len(m))
	for k := range m {
		ks = append(ks, k)
	}
	sort.Strings(ks)
	return ks
}
