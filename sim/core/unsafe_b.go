//go:build !go1.25

package core

import "unsafe"

//go:norace
func unsafePointer(p *byte) unsafe.Pointer { return unsafe.Pointer(p) }
