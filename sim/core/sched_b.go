//go:build !go1.25

package core

import (
	"fmt"
	"os"
	"runtime"
	"sync"
	"syscall"
	"time"

	"cuelabs.dev/go/oci/ociregistry/simhook"
)

// Mode B: the race detector under the simulator's schedule (DESIGN.md 4.3).
//
// Tasks are real goroutines executed strictly one at a time. Hand-off between
// tasks uses raw read(2)/write(2) on per-task pipes from functions the race
// detector does not instrument (go:norace): the detector is happens-before based,
// so a channel or mutex hand-off would order everything a task did before
// yielding with everything the next task does and hide every race, while a raw
// system call orders nothing. All scheduler state is touched only from norace
// functions and only by the one task that is running.
//
// There is no quiescence detection in this mode: it is used only for stacks whose
// every blocking point is a simhook call (ocimem, and ocimem behind
// ociserver/ociclient over the synchronous simulated transport).
type Sched struct {
	env   *Env
	tasks []*Task
	cur   *Task
	// ownership tables are slices scanned linearly: the runtime's map routines
	// report their accesses to the race detector even when called from norace code
	locks     []lockRec
	aborted   bool
	maxStep   int
	seq       int64
	deadlk    string
	abortedBy *Task
	doneW     int
	doneR     int
	wg        sync.WaitGroup
}

// EngineB is true in the build that runs under the race detector (mode B).
const EngineB = true

type lockRec struct {
	m       any // *sync.Mutex or *sync.RWMutex
	owner   *Task
	readers int
}

//go:norace
func (s *Sched) rec(m any) *lockRec {
	for i := range s.locks {
		if s.locks[i].m == m {
			return &s.locks[i]
		}
	}
	s.locks = append(s.locks, lockRec{m: m})
	return &s.locks[len(s.locks)-1]
}

type taskState int

const (
	tsParked taskState = iota
	tsRunning
	tsLockWait
	tsCondWait
	tsDone
)

type Task struct {
	ID      int
	Name    string
	state   taskState
	rfd     int
	wfd     int
	want    *sync.Mutex
	wantRW  *sync.RWMutex
	wantR   bool
	wantKey any // a simulated lock that is no mutex (a sync.Once)
	s       *Sched
	// cond-wait
	waitCond  *sync.Cond
	condWoken bool
}

//go:norace
func rawWrite(fd int) {
	var b [1]byte
	for {
		_, _, e := syscall.Syscall(syscall.SYS_WRITE, uintptr(fd), uintptr(unsafePointer(&b[0])), 1)
		if e == syscall.EINTR {
			continue
		}
		return
	}
}

// rawRead blocks until a byte arrives; it returns false on EOF (pipe closed).
//
//go:norace
func rawRead(fd int) bool {
	var b [1]byte
	for {
		n, _, e := syscall.Syscall(syscall.SYS_READ, uintptr(fd), uintptr(unsafePointer(&b[0])), 1)
		if e == syscall.EINTR {
			continue
		}
		return n == 1 && e == 0
	}
}

func newPipe() (r, w int) {
	var p [2]int
	if err := syscall.Pipe2(p[:], syscall.O_CLOEXEC); err != nil {
		panic(&HarnessError{Msg: "pipe: " + err.Error()})
	}
	return p[0], p[1]
}

//go:norace
func (s *Sched) Seq() int64 { s.seq++; return s.seq }

// Spawn creates a task. Called by the root before the run starts or by a task.
//
//go:norace
func (s *Sched) Spawn(name string, f func()) *Task {
	t := &Task{ID: len(s.tasks), Name: name, state: tsParked, s: s}
	t.rfd, t.wfd = newPipe()
	s.tasks = append(s.tasks, t)
	s.wg.Add(1)
	go s.taskMain(t, f)
	return t
}

//go:norace
func (s *Sched) taskMain(t *Task, f func()) {
	defer s.wg.Done()
	if !rawRead(t.rfd) {
		s.finish(t, false)
		return
	}
	func() {
		defer func() {
			if r := recover(); r != nil {
				s.recordPanic(r)
			}
		}()
		if s.aborted {
			return
		}
		f()
	}()
	s.finish(t, true)
}

//go:norace
func (s *Sched) recordPanic(r any) {
	switch x := r.(type) {
	case *abortRun:
	case *Violation:
		if !s.aborted {
			s.env.failed = x
			s.abort(s.cur)
		}
	case *HarnessError:
		if !s.aborted {
			s.env.panicked = &taskPanic{val: x}
			s.abort(s.cur)
		}
	default:
		if !s.aborted {
			pcs := make([]uintptr, 64)
			n := runtime.Callers(0, pcs)
			s.env.panicked = &taskPanic{r, pcs[:n]}
			s.abort(s.cur)
		}
	}
}

// finish: the task is over; hand the processor to the next one (or to the root).
//
//go:norace
func (s *Sched) finish(t *Task, wasRunning bool) {
	if s.aborted {
		// every task has been released to unwind and they run concurrently now: the
		// scheduler's tables are off limits
		if s.abortedBy == t {
			rawWrite(s.doneW)
		}
		return
	}
	t.state = tsDone
	for i := range s.locks {
		if s.locks[i].owner == t {
			s.locks[i].owner = nil
		}
	}
	if !wasRunning {
		return
	}
	s.dispatch(nil)
}

// candidates in id order.
//
//go:norace
func (s *Sched) candidates() (cands []*Task, live int) {
	for _, t := range s.tasks {
		switch t.state {
		case tsParked:
			cands = append(cands, t)
			live++
		case tsLockWait:
			live++
			free := false
			if t.want != nil {
				free = s.rec(t.want).owner == nil
			} else if t.wantRW != nil {
				r := s.rec(t.wantRW)
				free = r.owner == nil && (t.wantR || r.readers == 0)
			} else if t.wantKey != nil {
				free = s.rec(t.wantKey).owner == nil
			}
			if free {
				cands = append(cands, t)
			}
		case tsCondWait:
			live++
			if t.condWoken {
				cands = append(cands, t)
			}
		case tsRunning:
			live++
		}
	}
	return
}

// dispatch picks the next task and releases it. self is the caller if it remains
// schedulable (it has already set its own state), nil if it is finished. It
// returns true if the caller was picked itself.
//
//go:norace
func (s *Sched) dispatch(self *Task) bool {
	cands, live := s.candidates()
	if len(cands) == 0 {
		if live > 0 {
			// everything left waits for a simulated mutex that is held: deadlock
			s.deadlk = fmt.Sprintf("%d task(s) wait for a mutex that is never released", live)
			s.abort(self)
			return self != nil
		}
		rawWrite(s.doneW) // all tasks are done
		return false
	}
	s.env.Stats.Steps++
	if s.env.Stats.Steps > s.maxStep {
		s.env.overrun = true
		s.abort(self)
		return self != nil
	}
	t := cands[s.env.C.Int("sched", len(cands))]
	s.env.sigB = s.env.sigB*1099511628211 ^ uint64(t.ID+1)
	t.state = tsRunning
	s.cur = t
	if t == self {
		return true
	}
	rawWrite(t.wfd)
	return false
}

// abort ends the run: every parked task is released so that it unwinds (they then
// run concurrently, so from here on no scheduler table is touched), and the root is
// woken by the aborting task when it is done itself.
//
//go:norace
func (s *Sched) abort(by *Task) {
	if s.aborted {
		return
	}
	s.aborted = true
	s.abortedBy = by
	for _, t := range s.tasks {
		if t != by && (t.state == tsParked || t.state == tsLockWait || t.state == tsCondWait) {
			rawWrite(t.wfd)
		}
	}
	if by == nil {
		rawWrite(s.doneW)
	}
}

//go:norace
func (s *Sched) block(t *Task) {
	ok := rawRead(t.rfd)
	if !ok || s.aborted {
		panic(&abortRun{"aborted"})
	}
}

// Yield: scheduling point.
//
//go:norace
func (s *Sched) Yield() {
	if s.aborted {
		panic(&abortRun{"aborted"})
	}
	t := s.cur
	if t == nil {
		return
	}
	t.state = tsParked
	if s.dispatch(t) {
		if s.aborted {
			panic(&abortRun{"aborted"})
		}
		return
	}
	s.block(t)
}

//go:norace
func (s *Sched) Sleep(d time.Duration) { s.Yield() }

// --- simhook.Hooks ---

//go:norace
func (s *Sched) IsTask() bool { return s.cur != nil }

// Settle: see engine A. (Engine B runs no scenario that uses it.)
func (s *Sched) Settle() {}

//go:norace
func (s *Sched) Lock(m *sync.Mutex) {
	if s.aborted {
		m.Lock()
		return
	}
	s.Yield()
	t := s.cur
	for s.rec(m).owner != nil {
		s.env.contended++
		t.state = tsLockWait
		t.want = m
		if !s.dispatch(t) {
			s.block(t)
		}
		if s.aborted {
			panic(&abortRun{"aborted"})
		}
		t.want = nil
	}
	s.rec(m).owner = t
	m.Lock()
}

//go:norace
func (s *Sched) Unlock(m *sync.Mutex) {
	m.Unlock()
	if s.aborted {
		return
	}
	s.rec(m).owner = nil
}

//go:norace
func (s *Sched) RWLock(m *sync.RWMutex) {
	if s.aborted {
		m.Lock()
		return
	}
	s.Yield()
	t := s.cur
	for s.rec(m).owner != nil || s.rec(m).readers > 0 {
		t.state = tsLockWait
		t.wantRW, t.wantR = m, false
		if !s.dispatch(t) {
			s.block(t)
		}
		if s.aborted {
			panic(&abortRun{"aborted"})
		}
		t.wantRW = nil
	}
	s.rec(m).owner = t
	m.Lock()
}

//go:norace
func (s *Sched) RWUnlock(m *sync.RWMutex) {
	m.Unlock()
	if s.aborted {
		return
	}
	s.rec(m).owner = nil
}

//go:norace
func (s *Sched) RLock(m *sync.RWMutex) {
	if s.aborted {
		m.RLock()
		return
	}
	s.Yield()
	t := s.cur
	for s.rec(m).owner != nil {
		t.state = tsLockWait
		t.wantRW, t.wantR = m, true
		if !s.dispatch(t) {
			s.block(t)
		}
		if s.aborted {
			panic(&abortRun{"aborted"})
		}
		t.wantRW = nil
	}
	s.rec(m).readers++
	m.RLock()
}

//go:norace
func (s *Sched) RUnlock(m *sync.RWMutex) {
	m.RUnlock()
	if s.aborted {
		return
	}
	if r := s.rec(m); r.readers > 0 {
		r.readers--
	}
}

//go:norace
func (s *Sched) TryLock(m *sync.Mutex) bool {
	if s.aborted {
		return m.TryLock()
	}
	s.Yield()
	if s.rec(m).owner != nil {
		return false
	}
	s.rec(m).owner = s.cur
	if !m.TryLock() {
		panic(&HarnessError{Msg: "a lock that is free in the simulation is held for real"})
	}
	return true
}

//go:norace
func (s *Sched) RWTryLock(m *sync.RWMutex) bool {
	if s.aborted {
		return m.TryLock()
	}
	s.Yield()
	if r := s.rec(m); r.owner != nil || r.readers > 0 {
		return false
	}
	s.rec(m).owner = s.cur
	if !m.TryLock() {
		panic(&HarnessError{Msg: "a lock that is free in the simulation is held for real"})
	}
	return true
}

//go:norace
func (s *Sched) TryRLock(m *sync.RWMutex) bool {
	if s.aborted {
		return m.TryRLock()
	}
	s.Yield()
	if s.rec(m).owner != nil {
		return false
	}
	s.rec(m).readers++
	if !m.TryRLock() {
		panic(&HarnessError{Msg: "a lock that is free in the simulation is held for real"})
	}
	return true
}

// CondWait / CondSignal / CondBroadcast: see the bubble engine; here the waiters of a cond
// are found by scanning the tasks (tasks run one at a time, nothing to lock).
//
//go:norace
func (s *Sched) CondWait(c *sync.Cond) {
	if s.aborted {
		c.Wait()
		return
	}
	t := s.cur
	switch m := c.L.(type) {
	case *sync.Mutex:
		s.Unlock(m)
	case *sync.RWMutex:
		s.RWUnlock(m)
	default:
		c.L.Unlock()
	}
	t.state, t.waitCond, t.condWoken = tsCondWait, c, false
	if !s.dispatch(t) {
		s.block(t)
	}
	if s.aborted {
		panic(&abortRun{"aborted"})
	}
	t.waitCond = nil
	switch m := c.L.(type) {
	case *sync.Mutex:
		s.Lock(m)
	case *sync.RWMutex:
		s.RWLock(m)
	default:
		c.L.Lock()
	}
}

//go:norace
func (s *Sched) CondSignal(c *sync.Cond) {
	if s.aborted || s.cur == nil {
		return
	}
	for _, t := range s.tasks {
		if t.state == tsCondWait && t.waitCond == c && !t.condWoken {
			t.condWoken = true
			return
		}
	}
}

//go:norace
func (s *Sched) CondBroadcast(c *sync.Cond) {
	if s.aborted || s.cur == nil {
		return
	}
	for _, t := range s.tasks {
		if t.state == tsCondWait && t.waitCond == c {
			t.condWoken = true
		}
	}
}

//go:norace
func (s *Sched) OnceDo(o *sync.Once, f func()) {
	if s.aborted {
		o.Do(f)
		return
	}
	s.Yield()
	t := s.cur
	for s.rec(o).owner != nil {
		t.state = tsLockWait
		t.wantKey = o
		if !s.dispatch(t) {
			s.block(t)
		}
		if s.aborted {
			panic(&abortRun{"aborted"})
		}
		t.wantKey = nil
	}
	s.rec(o).owner = t
	defer s.onceRelease(o) // (a method, not a closure: the pragma does not reach into closures)
	o.Do(f)
}

//go:norace
func (s *Sched) onceRelease(o *sync.Once) {
	if !s.aborted {
		s.rec(o).owner = nil
	}
}

// GoForeign: this engine's tables belong to the one task that is running; a goroutine
// of the runtime cannot be taken in.
//
//go:norace
func (s *Sched) GoForeign(f func()) bool { return false }

//go:norace
func (s *Sched) Go(f func()) {
	if s.aborted {
		return
	}
	s.Spawn("go", f)
}

//go:norace
func (s *Sched) Woke() { s.Yield() }

//go:norace
func (s *Sched) SelectPref(n int) int { return s.env.C.Int("select", n) }

//go:norace
func (s *Sched) RandRead(b []byte) (int, error) {
	copy(b, s.env.randBytes(len(b)))
	return len(b), nil
}

//go:norace
func (s *Sched) Perm(kind string, n int) []int { return s.env.C.Perm(kind, n) }

//go:norace
func (s *Sched) Coin(kind string) bool { return s.env.C.Bool(kind, 1, 2) }

// RunBubble in mode B: body runs as task 0 under the serial scheduler.
func RunBubble(env *Env, body func()) (leak string) {
	s := &Sched{env: env, maxStep: 20000}
	s.doneR, s.doneW = newPipe()
	env.Sched = s
	simhook.Install(s)
	defer simhook.Install(nil)
	s.Spawn("main", body)
	s.start()
	rawRead(s.doneR)
	// wait for the goroutines to be gone (also gives the root a happens-before edge
	// from everything the tasks did, so that it may read their results)
	done := make(chan struct{})
	go func() { s.wg.Wait(); close(done) }()
	select {
	case <-done:
	case <-time.After(60 * time.Second):
		// (real time, outside any run: only reachable when the machine is stalled or a
		// task sits in an operation the scheduler does not own; the run is discarded
		// and the worker process retires, see RunOne)
		leak = "tasks did not finish"
	}
	for _, t := range s.tasks {
		syscall.Close(t.rfd)
		syscall.Close(t.wfd)
	}
	syscall.Close(s.doneR)
	syscall.Close(s.doneW)
	s.cur = nil
	if s.deadlk != "" && env.failed == nil {
		env.deadlock = s.deadlk
	}
	return leak
}

//go:norace
func (s *Sched) start() {
	s.dispatch(nil)
}

var _ = os.Getpid
