package core

import (
	"sync"

	"cuelabs.dev/go/oci/ociregistry/simhook"
)

// seqHooks are installed for scenarios that run in a single goroutine outside a
// bubble: synchronisation is the plain operation, but randomness (upload ids) and
// map iteration order still come from the run's choice source, so that such runs
// are replayable too.
type seqHooks struct{ env *Env }

func (h seqHooks) IsTask() bool                   { return true }
func (h seqHooks) Lock(m *sync.Mutex)             { m.Lock() }
func (h seqHooks) TryLock(m *sync.Mutex) bool     { return m.TryLock() }
func (h seqHooks) RWTryLock(m *sync.RWMutex) bool { return m.TryLock() }
func (h seqHooks) TryRLock(m *sync.RWMutex) bool  { return m.TryRLock() }
func (h seqHooks) Unlock(m *sync.Mutex)           { m.Unlock() }
func (h seqHooks) RWLock(m *sync.RWMutex)         { m.Lock() }
func (h seqHooks) RWUnlock(m *sync.RWMutex)       { m.Unlock() }
func (h seqHooks) RLock(m *sync.RWMutex)          { m.RLock() }
func (h seqHooks) RUnlock(m *sync.RWMutex)        { m.RUnlock() }
func (h seqHooks) Go(f func())                    { go f() }
func (h seqHooks) OnceDo(o *sync.Once, f func())  { o.Do(f) }
func (h seqHooks) CondWait(c *sync.Cond)          { c.Wait() }
func (h seqHooks) CondSignal(c *sync.Cond)        {}
func (h seqHooks) CondBroadcast(c *sync.Cond)     {}
func (h seqHooks) GoForeign(f func()) bool        { return false }
func (h seqHooks) Woke()                          {}
func (h seqHooks) SelectPref(n int) int           { return 0 }
func (h seqHooks) RandRead(b []byte) (int, error) {
	copy(b, h.env.randBytes(len(b)))
	return len(b), nil
}
func (h seqHooks) Perm(kind string, n int) []int { return h.env.C.Perm(kind, n) }
func (h seqHooks) Coin(kind string) bool         { return h.env.C.Bool(kind, 1, 2) }

func installSeq(env *Env) func() {
	simhook.Install(seqHooks{env})
	return func() { simhook.Install(nil) }
}
