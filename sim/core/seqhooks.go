package core

import (
	"sync"
	"sync/atomic"
	"time"

	"cuelabs.dev/go/oci/ociregistry/simhook"
)

// seqHooks are installed for scenarios that run in a single goroutine outside a
// bubble: synchronisation is the plain operation, but randomness (upload ids) and
// map iteration order still come from the run's choice source, so that such runs
// are replayable too.
type seqHooks struct{ env *Env }

func (h seqHooks) IsTask() bool                   { return true }
func (h seqHooks) Lock(m *sync.Mutex)             { m.Lock() }
func (h seqHooks) TryLock(m *sync.Mutex) bool     { return m.TryLock() }
func (h seqHooks) RWTryLock(m *sync.RWMutex) bool { return m.TryLock() }
func (h seqHooks) TryRLock(m *sync.RWMutex) bool  { return m.TryRLock() }
func (h seqHooks) Unlock(m *sync.Mutex)           { m.Unlock() }
func (h seqHooks) RWLock(m *sync.RWMutex)         { m.Lock() }
func (h seqHooks) RWUnlock(m *sync.RWMutex)       { m.Unlock() }
func (h seqHooks) RLock(m *sync.RWMutex)          { m.RLock() }
func (h seqHooks) RUnlock(m *sync.RWMutex)        { m.RUnlock() }
func (h seqHooks) Go(f func()) {
	// work the library leaves running when a call returns: counted, so that the scenario
	// can let it finish before its next step (Settle)
	seqAsync.pending.Add(1)
	seqAsync.started.Add(1)
	go func() {
		defer seqAsync.pending.Add(-1)
		f()
	}()
}
func (h seqHooks) OnceDo(o *sync.Once, f func()) { o.Do(f) }
func (h seqHooks) CondWait(c *sync.Cond)         { c.Wait() }
func (h seqHooks) CondSignal(c *sync.Cond)       {}
func (h seqHooks) CondBroadcast(c *sync.Cond)    {}
func (h seqHooks) GoForeign(f func()) bool       { return false }
func (h seqHooks) Woke()                         {}
func (h seqHooks) SelectPref(n int) int          { return 0 }
func (h seqHooks) RandRead(b []byte) (int, error) {
	copy(b, h.env.randBytes(len(b)))
	return len(b), nil
}
func (h seqHooks) Perm(kind string, n int) []int { return h.env.C.Perm(kind, n) }
func (h seqHooks) Coin(kind string) bool         { return h.env.C.Bool(kind, 1, 2) }

func installSeq(env *Env) func() {
	seqAsync.gaveUp.Store(false)
	simhook.Install(seqHooks{env})
	return func() { simhook.Install(nil) }
}

// seqAsync counts the goroutines the library has started in a scenario that runs
// without a scheduler and that have not ended yet.
var seqAsync struct {
	pending atomic.Int64
	started atomic.Int64
	gaveUp  atomic.Bool
}

// AsyncStarted is the number of goroutines the library has started so far in scenarios
// that run without a scheduler (it only grows).
func AsyncStarted() int64 { return seqAsync.started.Load() }

// Settle is called by scenarios that run without a scheduler at the end of each of their
// steps: if the library has left work running in the background (a goroutine that
// outlives the call that started it), the scenario's next step waits until that work
// has ended, so that the run stays a sequence and replays. On a library that finishes
// what it does before it returns this is a counter read. Work that does not end by
// itself within two seconds is not waited for again in this run.
func Settle() {
	if seqAsync.pending.Load() == 0 || seqAsync.gaveUp.Load() {
		return
	}
	deadline := time.Now().Add(2 * time.Second)
	for seqAsync.pending.Load() > 0 {
		if time.Now().After(deadline) {
			seqAsync.gaveUp.Store(true)
			return
		}
		time.Sleep(20 * time.Microsecond)
	}
}
