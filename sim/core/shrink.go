package core

import (
	"encoding/json"
	"fmt"
	"os"
	"time"
)

// shrink minimises the choice trace of a violation (delta debugging over the trace:
// delete blocks, zero values, halve values) while the same violation class
// persists. After every successful step the trace is replaced by the trace the
// replay actually consumed, which drops unused suffixes and normalises clamped
// values.
func shrink(all []*Scenario, a *Args) int {
	rf, err := readReplay(a.ReplayFile)
	if err != nil {
		fmt.Fprintln(os.Stderr, err)
		return 2
	}
	scn := findScenario(all, rf.Scenario)
	if scn == nil {
		return 2
	}
	deadline := time.Now().Add(25 * time.Second)
	if a.Tier == "thorough" {
		deadline = time.Now().Add(90 * time.Second)
	}
	tests := 0
	try := func(tr []uint32) ([]uint32, []string, bool) {
		tests++
		res := RunOne(scn, rf.Tier, rf.Seed, NewReplay(tr), false)
		if res.Violation != nil && res.Violation.Class == rf.Class && res.Harness == "" {
			// keep only what was consumed from the recorded part
			used := res.Trace
			if len(used) > len(tr)+res.Exhausted {
				used = used[:len(tr)]
			}
			// trailing zeros are implied
			for len(used) > 0 && used[len(used)-1] == 0 {
				used = used[:len(used)-1]
			}
			return append([]uint32(nil), used...), nil, true
		}
		return nil, nil, false
	}
	cur, _, ok := try(rf.Choices)
	if !ok {
		fmt.Fprintln(os.Stderr, "shrink: the unshrunk trace does not reproduce in-process")
		return 3
	}
	progress := true
	for progress && time.Now().Before(deadline) {
		progress = false
		// 1. delete blocks
		for size := len(cur) / 2; size >= 1 && time.Now().Before(deadline); size /= 2 {
			for i := 0; i+size <= len(cur) && time.Now().Before(deadline); {
				cand := append(append([]uint32(nil), cur[:i]...), cur[i+size:]...)
				if next, _, ok := try(cand); ok && len(next) < len(cur) {
					cur = next
					progress = true
				} else {
					i += size
				}
			}
		}
		// 2. zero / reduce values
		for i := 0; i < len(cur) && time.Now().Before(deadline); i++ {
			if cur[i] == 0 {
				continue
			}
			for _, v := range []uint32{0, cur[i] / 2, cur[i] - 1} {
				if v >= cur[i] {
					continue
				}
				cand := append([]uint32(nil), cur...)
				cand[i] = v
				if next, _, ok := try(cand); ok {
					same := len(next) == len(cur)
					if same {
						for j := range next {
							if next[j] != cur[j] {
								same = false
								break
							}
						}
					}
					if !same {
						cur = next
						progress = true
						break
					}
				}
			}
		}
	}
	rf.Choices = cur
	final := RunOne(scn, rf.Tier, rf.Seed, NewReplay(cur), true)
	if final.Violation == nil || final.Violation.Class != rf.Class {
		fmt.Fprintln(os.Stderr, "shrink: minimised trace stopped reproducing")
		return 3
	}
	rf.Detail = final.Violation.Detail
	rf.Kinds = final_kinds(scn, rf, cur)
	data, _ := json.MarshalIndent(rf, "", " ")
	if err := os.WriteFile(a.Out, data, 0o644); err != nil {
		return 2
	}
	fmt.Fprintf(os.Stderr, "shrink: %d -> %d choices in %d replays\n", rf.OrigLen, len(cur), tests)
	return 0
}

func final_kinds(scn *Scenario, rf *ReplayFile, tr []uint32) []string {
	c := NewReplay(tr)
	RunOne(scn, rf.Tier, rf.Seed, c, false)
	k := c.Kinds
	if len(k) > len(tr) {
		k = k[:len(tr)]
	}
	return k
}
