package core

import (
	"encoding/json"
	"fmt"
	"os"
	"sort"
)

// Components lists, per property, what ran as real code and what was a stub; the
// scenario packages fill it in.
var Components = map[string][2][]string{}

// Rules describes, per property, how cases are generated and what makes one
// distinct and non-trivial.
var Rules = map[string]string{}

// Assumptions per property.
var Assumptions = map[string][]string{}

func writeEvidence(a *Args, g *agg, shapes, scheds, states, violations int, wall float64, scns []*Scenario, knownLines int) error {
	names := []string{}
	for _, s := range scns {
		names = append(names, s.Name)
	}
	var instr any
	if data, err := os.ReadFile(a.InstrReport); err == nil {
		json.Unmarshal(data, &instr)
	}
	zeroProbes := []string{}
	for _, k := range sortedKeys(g.Probes) {
		if g.Probes[k] == 0 {
			zeroProbes = append(zeroProbes, k)
		}
	}
	samples := []any{}
	for _, s := range g.Samples {
		samples = append(samples, s)
		if len(samples) >= 6 {
			break
		}
	}
	if len(samples) == 0 {
		samples = append(samples, fmt.Sprintf("%d runs over scenarios %v (no per-run description recorded)", g.Runs, names))
	}
	rule := Rules[a.Property]
	if rule == "" {
		rule = "one evaluation = one simulated run (one derived seed -> one choice trace); distinct = distinct shape signature (hash of the sequence of operation kinds, outcomes and fired faults); non-trivial = issued at least one operation against the system under test"
	}
	comp := Components[a.Property]
	cov := map[string]any{
		"evaluations":             g.Runs,
		"distinct_nontrivial":     shapes,
		"rule":                    rule,
		"samples":                 samples,
		"runs_per_hour":           int(float64(g.Runs) / wall * 3600),
		"seeds":                   fmt.Sprintf("base VERIF_SEED=%d; run k uses mix(seed,k), k in [0,%d)", a.Seed, g.Runs),
		"operations":              g.Ops,
		"scheduler_steps":         g.Steps,
		"distinct_interleavings":  scheds,
		"distinct_model_states":   states,
		"simulated_time_s":        float64(g.SimNanos) / 1e9,
		"faults_fired":            g.Faults,
		"probes":                  g.Probes,
		"linearizability":         g.Lin,
		"runs_per_scenario":       g.PerScen,
		"overrun_runs_discarded":  g.Overruns,
		"workers_retired_early":   g.Retired,
		"workers_restarted":       g.Restarted,
		"unschedulable_scenarios": g.Unschedulable,
		"known_finding_hits":      g.KnownHits,
		"known_finding_lines":     knownLines,
		"real_components":         comp[0],
		"stub_components":         comp[1],
		"instrumentation":         instr,
		"engine":                  a.Engine,
		"toolchain":               a.Toolchain,
		"tree_id":                 a.TreeID,
		"workers":                 a.Workers,
	}
	ev := map[string]any{
		"property_id": a.Property,
		"tier":        a.Tier,
		"seed":        a.Seed,
		"level":       "exploration",
		"coverage":    cov,
		"assumptions": Assumptions[a.Property],
		"wall_s":      wall,
		"violations":  violations,
	}
	if ev["assumptions"] == nil || len(Assumptions[a.Property]) == 0 {
		ev["assumptions"] = []string{"sampling, not proof: a clean batch is evidence for the explored seeds only"}
	}
	data, err := json.MarshalIndent(ev, "", " ")
	if err != nil {
		return err
	}
	_ = sort.Strings
	return os.WriteFile(a.Evidence, data, 0o644)
}
