package core

import (
	"fmt"
	"runtime"
	"sort"
	"strings"
)

// Scenario is one family of simulated runs for a property.
type Scenario struct {
	Name     string
	Property string
	// Weight is the relative share of runs given to this scenario.
	Weight int
	// Bubble: run inside a synctest bubble under the deterministic scheduler.
	Bubble bool
	// LeakIsViolation: goroutines still blocked when the run ends are a violation
	// (class "leak"); otherwise they are a harness error.
	LeakIsViolation bool
	Run             func(env *Env)
}

// Result is the outcome of one simulated run.
type Result struct {
	Scenario  string     `json:"scenario"`
	Seed      uint64     `json:"seed"`
	Violation *Violation `json:"violation,omitempty"`
	Harness   string     `json:"harness,omitempty"`
	Overrun   bool       `json:"overrun,omitempty"`
	// Poisoned: goroutines of this run may still be alive (engine B only); the worker
	// process must not start another run.
	Poisoned  bool     `json:"poisoned,omitempty"`
	Stats     Stats    `json:"-"`
	SigShape  uint64   `json:"-"`
	SigSched  uint64   `json:"-"`
	States    []uint64 `json:"-"`
	Trace     []uint32 `json:"trace,omitempty"`
	Bounds    []uint32 `json:"-"`
	Log       []string `json:"log,omitempty"`
	LogHash   uint64   `json:"log_hash"`
	Sample    []string `json:"sample,omitempty"`
	Exhausted int      `json:"-"`
}

// RunOne executes one simulated run of scn with the given choice source.
func RunOne(scn *Scenario, tier string, seed uint64, c *Choices, logOn bool) *Result {
	env := newEnv(scn.Property, scn.Name, tier, seed, c, logOn)
	res := &Result{Scenario: scn.Name, Seed: seed}
	var leak string
	if scn.Bubble {
		leak = RunBubble(env, func() { scn.Run(env) })
	} else {
		func() {
			defer installSeq(env)()
			defer func() {
				if r := recover(); r != nil {
					switch x := r.(type) {
					case *Violation:
						env.failed = x
					case *HarnessError:
						env.panicked = &taskPanic{val: x}
					case *abortRun:
					default:
						pcs := make([]uintptr, 64)
						n := runtime.Callers(0, pcs)
						env.panicked = &taskPanic{x, pcs[:n]}
					}
				}
			}()
			scn.Run(env)
		}()
	}
	if env.failed == nil && env.panicked == nil && !env.overrun && env.deadlock == "" && leak == "" {
		func() {
			defer func() {
				if r := recover(); r != nil {
					switch x := r.(type) {
					case *Violation:
						env.failed = x
					case *HarnessError:
						env.panicked = &taskPanic{val: x}
					default:
						pcs := make([]uintptr, 64)
						n := runtime.Callers(0, pcs)
						env.panicked = &taskPanic{x, pcs[:n]}
					}
				}
			}()
			for _, f := range env.finally {
				f()
			}
		}()
	}
	for i := len(env.cleanup) - 1; i >= 0; i-- {
		env.cleanup[i]()
	}
	switch {
	case env.failed != nil:
		res.Violation = env.failed
	case env.panicked != nil:
		if he, ok := env.panicked.val.(*HarnessError); ok {
			res.Harness = he.Error()
			break
		}
		inLib, site, stack := classifyPanic(env.panicked.pcs)
		if inLib {
			res.Violation = &Violation{
				Property: scn.Property,
				Class:    "panic:" + site,
				Detail:   fmt.Sprintf("panic in library code: %v\n%s", env.panicked.val, stack),
			}
		} else {
			res.Harness = fmt.Sprintf("panic outside library code (%s): %v\n%s", site, env.panicked.val, stack)
		}
	case env.overrun:
		res.Overrun = true
	case env.deadlock != "":
		res.Violation = &Violation{Property: scn.Property, Class: "deadlock:sim-mutex", Detail: env.deadlock}
	case leak != "":
		if scn.LeakIsViolation {
			res.Violation = &Violation{Property: scn.Property, Class: "leak:blocked-goroutines",
				Detail: "the run ended with goroutines still blocked: " + leak}
		} else if EngineB {
			// Engine B's oracle is the race detector; it has no quiescence detection, so
			// stragglers are not a verdict. Discard the run and retire this process.
			res.Overrun, res.Poisoned = true, true
		} else {
			res.Harness = "bubble ended with blocked goroutines: " + leak
		}
	}
	res.Stats = env.Stats
	res.SigShape = env.sigA
	res.SigSched = env.sigB
	for k := range env.states {
		res.States = append(res.States, k)
	}
	sort.Slice(res.States, func(i, j int) bool { return res.States[i] < res.States[j] })
	res.Trace = c.Trace
	res.Bounds = c.Bounds
	res.Log = env.log
	res.LogHash = env.sigB ^ (env.sigA * 31)
	res.Sample = env.sample
	res.Exhausted = c.Exhaust
	return res
}

// mixSeed derives the seed of run k from the base seed.
func mixSeed(base uint64, k int) uint64 {
	x := base*0x9e3779b97f4a7c15 + uint64(k)*0xbf58476d1ce4e5b9 + 0x1234567
	return splitmix(&x)
}

func matchKnown(class string, patterns []string) bool {
	for _, p := range patterns {
		if strings.HasSuffix(p, "*") {
			if strings.HasPrefix(class, strings.TrimSuffix(p, "*")) {
				return true
			}
		} else if p == class {
			return true
		}
	}
	return false
}
