//go:build go1.25

package core

import (
	"bytes"
	"fmt"
	"runtime"
	"sort"
	"strconv"
	"sync"
	"time"
)

// Sched is the deterministic scheduler (DESIGN.md 4.3, mode A). Tasks are real
// goroutines; at most one of them executes library or scenario code at a time, and
// which one is released next is one draw from the run's choice source over the set of
// runnable tasks sorted by task id.
//
// Yield points: every sync.Mutex acquisition in the (rewritten) library, every
// goroutine start, every wake-up from a real channel/select operation, and every
// point at which scenario code or the simulated network calls Yield explicitly.
type Sched struct {
	env *Env

	mu      sync.Mutex // guards everything below; never held while parked
	tasks   []*Task
	byGoid  map[int64]*Task
	owner   map[any]*Task
	readers map[any]int
	kick    chan struct{}
	conds   map[*sync.Cond][]*Task // waiters per cond, in arrival order
	aborted bool
	maxStep int
	seq     int64
	deadlk  string
	over    bool // the scheduler's loop has returned
}

// EngineB is true in the build that runs under the race detector (mode B).
const EngineB = false

type taskState int

const (
	tsParked   taskState = iota // at a yield point, can be released
	tsRunning                   // released (or blocked in an uninstrumented primitive)
	tsLockWait                  // waiting for a simulated mutex
	tsCondWait                  // waiting on a simulated sync.Cond
	tsDone
)

// Task is one simulated goroutine.
type Task struct {
	ID    int
	Name  string
	state taskState
	wake  chan struct{}
	want  any  // mutex it waits for
	wantR bool // wants it for reading
	// cond-wait: the cond it waits on, and whether a Signal/Broadcast has named it
	waitCond  *sync.Cond
	condWoken bool
	goid      int64
	s         *Sched
}

func newSched(env *Env) *Sched {
	return &Sched{
		env:     env,
		byGoid:  map[int64]*Task{},
		owner:   map[any]*Task{},
		readers: map[any]int{},
		conds:   map[*sync.Cond][]*Task{},
		kick:    make(chan struct{}, 1),
		maxStep: 20000,
	}
}

func goid() int64 { return Goid() }

func (s *Sched) cur() *Task {
	g := goid()
	s.mu.Lock()
	t := s.byGoid[g]
	s.mu.Unlock()
	return t
}

// Seq returns the next global event sequence number (used to stamp invoke/return
// events of recorded histories; never simulated time, under which events tie).
func (s *Sched) Seq() int64 {
	s.mu.Lock()
	s.seq++
	v := s.seq
	s.mu.Unlock()
	return v
}

func (s *Sched) doKick() {
	select {
	case s.kick <- struct{}{}:
	default:
	}
}

// Spawn creates a new task running f. It may be called from the root (scenario
// set-up) or from a task.
func (s *Sched) Spawn(name string, f func()) *Task {
	s.mu.Lock()
	t := &Task{ID: len(s.tasks), Name: name, state: tsParked, wake: make(chan struct{}, 1), s: s}
	s.tasks = append(s.tasks, t)
	s.mu.Unlock()
	started := make(chan struct{})
	go func() {
		g := goid()
		s.mu.Lock()
		t.goid = g
		s.byGoid[g] = t
		s.mu.Unlock()
		close(started)
		defer s.finish(t)
		<-t.wake
		s.checkAbort()
		f()
	}()
	<-started
	return t
}

func (s *Sched) finish(t *Task) {
	if r := recover(); r != nil {
		switch x := r.(type) {
		case *abortRun:
		case *Violation:
			s.abort(x)
		case *HarnessError:
			s.abortPanic(x, nil)
		default:
			pcs := make([]uintptr, 64)
			n := runtime.Callers(0, pcs)
			s.abortPanic(r, pcs[:n])
		}
	}
	s.mu.Lock()
	t.state = tsDone
	delete(s.byGoid, t.goid)
	// release anything it still owns (only happens when unwinding after an abort)
	for m, o := range s.owner {
		if o == t {
			delete(s.owner, m)
		}
	}
	s.mu.Unlock()
	s.doKick()
}

func (s *Sched) abort(v *Violation) {
	s.mu.Lock()
	if s.env.failed == nil {
		s.env.failed = v
	}
	s.aborted = true
	s.mu.Unlock()
}

func (s *Sched) abortPanic(val any, pcs []uintptr) {
	s.mu.Lock()
	if s.env.failed == nil && s.env.panicked == nil {
		s.env.panicked = &taskPanic{val, pcs}
	}
	s.aborted = true
	s.mu.Unlock()
}

func (s *Sched) checkAbort() {
	s.mu.Lock()
	a := s.aborted
	s.mu.Unlock()
	if a {
		panic(&abortRun{"aborted"})
	}
}

// park blocks the calling task until the scheduler releases it.
func (s *Sched) park(t *Task) {
	s.doKick()
	<-t.wake
	s.checkAbort()
}

// Yield is a scheduling point: the calling task parks and the scheduler decides
// who runs next. Calls from non-task goroutines are ignored.
func (s *Sched) Yield() {
	t := s.cur()
	if t == nil {
		return
	}
	s.mu.Lock()
	if s.aborted {
		s.mu.Unlock()
		panic(&abortRun{"aborted"})
	}
	t.state = tsParked
	s.mu.Unlock()
	s.park(t)
}

// Settle lets everything else that is under way come to rest: the calling task yields
// until no other task is left that could still run (bounded: a task that waits for
// something only the caller will do never ends). Used where a scenario models a party
// that goes away - what that party had in flight is dealt with before its successor
// starts, since the statement at hand is about one caller at a time.
func (s *Sched) Settle() {
	t := s.cur()
	if t == nil {
		return
	}
	for i := 0; i < 500000; i++ {
		s.mu.Lock()
		others := false
		for _, o := range s.tasks {
			if o != t && o.state != tsDone {
				others = true
			}
		}
		s.mu.Unlock()
		if !others {
			return
		}
		s.Yield()
	}
}

// --- simhook.Hooks ---

func (s *Sched) IsTask() bool { return s.cur() != nil }

func (s *Sched) acquire(m any, read bool, real func()) {
	t := s.cur()
	s.mu.Lock()
	if s.aborted {
		s.mu.Unlock()
		panic(&abortRun{"aborted"})
	}
	t.state = tsParked
	s.mu.Unlock()
	s.park(t) // yield before every acquisition
	for {
		s.mu.Lock()
		free := s.owner[m] == nil && (read || s.readers[m] == 0)
		if free {
			if read {
				s.readers[m]++
			} else {
				s.owner[m] = t
			}
			s.mu.Unlock()
			break
		}
		t.state = tsLockWait
		t.want, t.wantR = m, read
		s.env.Stats.Probes["sched:lock-contended"]++ // (under s.mu: several goroutines can be here at once)
		s.mu.Unlock()
		s.park(t)
	}
	real()
}

func (s *Sched) release(m any, read bool, real func()) {
	real()
	s.mu.Lock()
	if read {
		if s.readers[m] > 0 {
			s.readers[m]--
		}
	} else {
		delete(s.owner, m)
	}
	s.mu.Unlock()
}

// tryAcquire: a scheduling point like any acquisition; the answer is the simulated
// state of the lock (which the real one follows).
func (s *Sched) tryAcquire(m any, read bool, real func() bool) bool {
	t := s.cur()
	s.mu.Lock()
	if s.aborted {
		s.mu.Unlock()
		panic(&abortRun{"aborted"})
	}
	t.state = tsParked
	s.mu.Unlock()
	s.park(t)
	s.mu.Lock()
	free := s.owner[m] == nil && (read || s.readers[m] == 0)
	if free {
		if read {
			s.readers[m]++
		} else {
			s.owner[m] = t
		}
	}
	s.mu.Unlock()
	if !free {
		return false
	}
	if !real() {
		panic(&HarnessError{Msg: "a lock that is free in the simulation is held for real"})
	}
	return true
}

func (s *Sched) TryLock(m *sync.Mutex) bool     { return s.tryAcquire(m, false, m.TryLock) }
func (s *Sched) RWTryLock(m *sync.RWMutex) bool { return s.tryAcquire(m, false, m.TryLock) }
func (s *Sched) TryRLock(m *sync.RWMutex) bool  { return s.tryAcquire(m, true, m.TryRLock) }

func (s *Sched) Lock(m *sync.Mutex)       { s.acquire(m, false, m.Lock) }
func (s *Sched) Unlock(m *sync.Mutex)     { s.release(m, false, m.Unlock) }
func (s *Sched) RWLock(m *sync.RWMutex)   { s.acquire(m, false, m.Lock) }
func (s *Sched) RWUnlock(m *sync.RWMutex) { s.release(m, false, m.Unlock) }
func (s *Sched) RLock(m *sync.RWMutex)    { s.acquire(m, true, m.RLock) }
func (s *Sched) RUnlock(m *sync.RWMutex)  { s.release(m, true, m.RUnlock) }

func (s *Sched) Go(f func()) { s.Spawn("go", f) }

// GoForeign: a goroutine the runtime started (a timer's function) hands its work to a
// new task and the scheduler is told that there is one more to choose from.
func (s *Sched) GoForeign(f func()) bool {
	s.mu.Lock()
	over := s.aborted || s.over
	s.mu.Unlock()
	if over {
		return false
	}
	s.Spawn("timer", f)
	s.doKick()
	return true
}

func unlockLocker(h interface {
	Unlock(*sync.Mutex)
	RWUnlock(*sync.RWMutex)
}, l sync.Locker) {
	switch m := l.(type) {
	case *sync.Mutex:
		h.Unlock(m)
	case *sync.RWMutex:
		h.RWUnlock(m)
	default:
		l.Unlock()
	}
}

func lockLocker(h interface {
	Lock(*sync.Mutex)
	RWLock(*sync.RWMutex)
}, l sync.Locker) {
	switch m := l.(type) {
	case *sync.Mutex:
		h.Lock(m)
	case *sync.RWMutex:
		h.RWLock(m)
	default:
		l.Lock()
	}
}

// OnceDo: one task at a time gets to the real Do (a second one would block in the
// Once's own mutex, where the simulator cannot see it, while the first is parked
// inside f).
func (s *Sched) OnceDo(o *sync.Once, f func()) {
	s.acquire(o, false, func() {})
	defer s.release(o, false, func() {})
	o.Do(f)
}

// CondWait: give up the lock, wait to be named by a Signal or Broadcast, take the lock
// again. The real Cond is never waited on.
func (s *Sched) CondWait(c *sync.Cond) {
	t := s.cur()
	unlockLocker(s, c.L)
	s.mu.Lock()
	if s.aborted {
		s.mu.Unlock()
		panic(&abortRun{"aborted"})
	}
	t.state, t.waitCond, t.condWoken = tsCondWait, c, false
	s.conds[c] = append(s.conds[c], t)
	s.mu.Unlock()
	s.park(t)
	lockLocker(s, c.L)
}

func (s *Sched) CondSignal(c *sync.Cond) {
	s.mu.Lock()
	if ws := s.conds[c]; len(ws) > 0 {
		ws[0].condWoken = true
		s.conds[c] = ws[1:]
	}
	s.mu.Unlock()
	s.doKick()
}

func (s *Sched) CondBroadcast(c *sync.Cond) {
	s.mu.Lock()
	for _, t := range s.conds[c] {
		t.condWoken = true
	}
	delete(s.conds, c)
	s.mu.Unlock()
	s.doKick()
}

func (s *Sched) Woke() { s.Yield() }

func (s *Sched) SelectPref(n int) int { return s.env.C.Int("select", n) }

func (s *Sched) RandRead(b []byte) (int, error) {
	copy(b, s.env.randBytes(len(b)))
	return len(b), nil
}

func (s *Sched) Perm(kind string, n int) []int { return s.env.C.Perm(kind, n) }
func (s *Sched) Coin(kind string) bool         { return s.env.C.Bool(kind, 1, 2) }

// candidates returns the tasks that can be released, sorted by id.
func (s *Sched) candidates() (cands []*Task, running, live int) {
	for _, t := range s.tasks {
		switch t.state {
		case tsParked:
			cands = append(cands, t)
			live++
		case tsLockWait:
			live++
			if s.owner[t.want] == nil && (t.wantR || s.readers[t.want] == 0) {
				cands = append(cands, t)
			}
		case tsCondWait:
			live++
			if t.condWoken {
				cands = append(cands, t)
			} else {
				// (who will signal is not known to the scheduler - it may be a timer that
				// has yet to fire - so this counts like a task blocked in a real primitive:
				// the scheduler waits, and if nothing can ever come the bubble says so)
				running++
			}
		case tsRunning:
			running++
			live++
		}
	}
	sort.Slice(cands, func(i, j int) bool { return cands[i].ID < cands[j].ID })
	return
}

// loop is the scheduler's main loop; quiesce blocks until every goroutine of the
// simulation is durably blocked (synctest.Wait in mode A).
func (s *Sched) loop(quiesce func()) {
	for {
		quiesce()
		s.mu.Lock()
		cands, running, live := s.candidates()
		if live == 0 {
			s.over = true
			s.mu.Unlock()
			return
		}
		if s.aborted {
			// release everything that can be released so that it unwinds
			for _, t := range s.tasks {
				if t.state == tsParked || t.state == tsLockWait || t.state == tsCondWait {
					t.state = tsRunning
					select {
					case t.wake <- struct{}{}:
					default:
					}
				}
			}
			s.mu.Unlock()
			if running > 0 && len(cands) == 0 {
				// tasks blocked in real primitives cannot be unwound: give up on them
				return
			}
			continue
		}
		if len(cands) == 0 {
			if running == 0 {
				// everything waits for a simulated mutex that is held: deadlock
				var sb bytes.Buffer
				for _, t := range s.tasks {
					if t.state == tsLockWait {
						fmt.Fprintf(&sb, "task %d(%s) waits for a mutex held by task %d; ", t.ID, t.Name, s.owner[t.want].ID)
					}
					if t.state == tsCondWait {
						fmt.Fprintf(&sb, "task %d(%s) waits on a sync.Cond that nobody signals; ", t.ID, t.Name)
					}
				}
				s.deadlk = sb.String()
				s.aborted = true
				s.mu.Unlock()
				continue
			}
			s.mu.Unlock()
			// Tasks are blocked in real primitives (timers, channels, pipes). Block so
			// that the fake clock can advance; if nothing can ever wake them the
			// bubble's deadlock detector fires and is reported by the caller.
			<-s.kick
			continue
		}
		s.env.Stats.Steps++
		if s.env.Stats.Steps > s.maxStep {
			s.aborted = true
			s.env.overrun = true
			s.mu.Unlock()
			continue
		}
		i := s.env.C.Int("sched", len(cands))
		t := cands[i]
		s.env.sigB = s.env.sigB*1099511628211 ^ uint64(t.ID+1)
		if s.env.logOn {
			s.env.log = append(s.env.log, "sched "+strconv.Itoa(t.ID))
		}
		t.state = tsRunning
		s.mu.Unlock()
		t.wake <- struct{}{}
	}
}

// Sleep advances simulated time for the calling task (fake clock inside the bubble).
func (s *Sched) Sleep(d time.Duration) {
	time.Sleep(d)
	s.Woke()
}
