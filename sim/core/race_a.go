//go:build go1.25

package core

func checkRace(res *Result, property string) {}
