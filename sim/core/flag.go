package core

// Flag is a boolean shared by the tasks of a scenario for the harness's own
// book-keeping. Tasks run one at a time, so there is nothing to protect; the accessors
// are kept from the race detector's view because engine B deliberately gives it no
// happens-before edge between tasks (an atomic or a mutex here would add one and could
// hide a race in the library).
type Flag struct{ v bool }

//go:norace
func (f *Flag) Set() { f.v = true }

//go:norace
func (f *Flag) Get() bool { return f.v }
