//go:build go1.25

package core

import (
	"fmt"
	"runtime"
	"testing"
	"testing/synctest"
	"time"

	"cuelabs.dev/go/oci/ociregistry/simhook"
)

// RunBubble executes body inside a testing/synctest bubble under the deterministic
// scheduler (mode A). body runs as task 0; it may spawn more tasks with
// env.Sched.Spawn. The bubble's fake clock is the only clock the system reads.
//
// It returns a description of a deadlock / goroutine leak if the bubble ended with
// blocked goroutines, "" otherwise. Violations and panics are stored in env.
func RunBubble(env *Env, body func()) (leak string) {
	defer func() {
		simhook.Install(nil)
		if r := recover(); r != nil {
			// Only the bubble's own deadlock detector panics out of synctest.Test;
			// everything else is recovered inside.
			leak = fmt.Sprint(r)
		}
	}()
	var tt testing.T
	synctest.Test(&tt, func(*testing.T) {
		s := newSched(env)
		env.Sched = s
		simhook.Install(s)
		start := time.Now()
		s.Spawn("main", func() {
			body()
		})
		func() {
			defer func() {
				if r := recover(); r != nil {
					pcs := make([]uintptr, 64)
					n := runtime.Callers(0, pcs)
					s.abortPanic(r, pcs[:n])
				}
			}()
			s.loop(synctest.Wait)
		}()
		env.Stats.SimNanos += int64(time.Since(start))
		if s.deadlk != "" && env.failed == nil {
			env.deadlock = s.deadlk
		}
	})
	return ""
}
