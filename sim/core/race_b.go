//go:build !go1.25

package core

import (
	"os"
	"path/filepath"
	"regexp"
	"sort"
	"strings"
)

// Race reports: the worker runs with GORACE=log_path=<prefix>, so the race detector
// appends its reports to <prefix>.<pid> and the process keeps going. After every
// run the new text is collected; a report with at least one library frame is a
// violation of the run that just ended.
var raceOffset int64

func raceLogPath() string {
	p := os.Getenv("VERIF_RACE_LOG")
	if p == "" {
		return ""
	}
	m, _ := filepath.Glob(p + ".*")
	if len(m) == 0 {
		return ""
	}
	return m[0]
}

var frameRe = regexp.MustCompile(`(?m)^  (cuelabs\.dev/go/oci/ociregistry/[^\s(]+(?:\([^)]*\))?[^\s(]*)\(\)`)

func checkRace(res *Result, property string) {
	path := raceLogPath()
	if path == "" {
		return
	}
	data, err := os.ReadFile(path)
	if err != nil || int64(len(data)) <= raceOffset {
		return
	}
	txt := string(data[raceOffset:])
	raceOffset = int64(len(data))
	if !strings.Contains(txt, "DATA RACE") {
		return
	}
	// class: the innermost library frames of the conflicting accesses
	var fns []string
	seen := map[string]bool{}
	for _, blk := range strings.Split(txt, "\n\n") {
		if !(strings.Contains(blk, " by goroutine ") || strings.Contains(blk, " by main goroutine")) || strings.HasPrefix(strings.TrimSpace(blk), "Goroutine") {
			continue
		}
		m := frameRe.FindStringSubmatch(blk)
		if m != nil && !strings.Contains(m[1], "/simhook.") {
			f := trimFunc(m[1])
			if !seen[f] {
				seen[f] = true
				fns = append(fns, f)
			}
		}
	}
	if len(fns) == 0 {
		res.Harness = "the race detector reported a race without any library frame (harness state is shared unsafely):\n" + txt
		return
	}
	sort.Strings(fns)
	if len(fns) > 2 {
		fns = fns[:2]
	}
	if res.Violation == nil {
		res.Violation = &Violation{Property: property, Class: "race:" + strings.Join(fns, "|"), Detail: "the Go race detector, under the simulator's serial schedule, reported:\n" + txt}
	}
}
