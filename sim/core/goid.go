package core

import (
	"bytes"
	"runtime"
	"strconv"
)

// Goid identifies the calling goroutine (the scheduler of engine A maps goroutines to
// tasks with it; scenarios tell their own goroutine from ones the library started).
func Goid() int64 {
	var buf [64]byte
	n := runtime.Stack(buf[:], false)
	// "goroutine 123 [running]:"
	b := buf[:n]
	b = bytes.TrimPrefix(b, []byte("goroutine "))
	i := bytes.IndexByte(b, ' ')
	id, _ := strconv.ParseInt(string(b[:i]), 10, 64)
	return id
}
