// Package simhook is the seam between the (mechanically rewritten) library code and the
// deterministic simulator. It is written into the scratch copy of the module by the
// check driver; /repo never contains it.
//
// With no Hooks installed every entry point is the plain Go operation, so the
// rewritten module behaves exactly like the original (the repository's own test
// suite passes on it).
package simhook

import (
	"context"
	crand "crypto/rand"
	"fmt"
	"io"
	"sort"
	"sync"
	"sync/atomic"
	"time"
)

// Hooks is implemented by the simulator.
type Hooks interface {
	// IsTask reports whether the calling goroutine is a simulated task. Calls from
	// other goroutines fall through to the plain operation.
	IsTask() bool
	Lock(m *sync.Mutex)
	Unlock(m *sync.Mutex)
	RWLock(m *sync.RWMutex)
	RWUnlock(m *sync.RWMutex)
	RLock(m *sync.RWMutex)
	RUnlock(m *sync.RWMutex)
	TryLock(m *sync.Mutex) bool
	RWTryLock(m *sync.RWMutex) bool
	TryRLock(m *sync.RWMutex) bool
	// CondWait, CondSignal, CondBroadcast stand in for the methods of a sync.Cond: a task
	// that waits gives up the cond's lock through the simulator, is parked, and is
	// released by the scheduler after a Signal or Broadcast has named it.
	CondWait(c *sync.Cond)
	CondSignal(c *sync.Cond)
	CondBroadcast(c *sync.Cond)
	// OnceDo stands in for (*sync.Once).Do: callers take turns through the simulator (the
	// Once's own mutex is one it cannot see), the real Do decides whether f runs.
	OnceDo(o *sync.Once, f func())
	// GoForeign runs f as a new task although the caller is not a task (a timer's or a
	// context's AfterFunc goroutine). It reports false if it cannot (then the caller
	// runs f itself).
	GoForeign(f func()) bool
	Go(f func())
	// Woke is called by a task right after an operation that may have blocked on a
	// real (uninstrumented) primitive: it parks the task until the scheduler
	// releases it, so that it never touches shared state concurrently.
	Woke()
	// SelectPref returns the index of the select case to poll first.
	SelectPref(n int) int
	RandRead(b []byte) (int, error)
	// Perm returns a seeded permutation of 0..n-1.
	Perm(kind string, n int) []int
	// Coin returns a seeded boolean.
	Coin(kind string) bool
}

type holder struct{ h Hooks }

var current atomic.Pointer[holder]

// Install sets the simulator hooks (nil uninstalls).
func Install(h Hooks) {
	if h == nil {
		current.Store(nil)
		return
	}
	current.Store(&holder{h})
}

func get() Hooks {
	p := current.Load()
	if p == nil {
		return nil
	}
	if !p.h.IsTask() {
		return nil
	}
	return p.h
}

func Lock(m *sync.Mutex) {
	if h := get(); h != nil {
		h.Lock(m)
		return
	}
	m.Lock()
}

func Unlock(m *sync.Mutex) {
	if h := get(); h != nil {
		h.Unlock(m)
		return
	}
	m.Unlock()
}

func RWLock(m *sync.RWMutex) {
	if h := get(); h != nil {
		h.RWLock(m)
		return
	}
	m.Lock()
}

func RWUnlock(m *sync.RWMutex) {
	if h := get(); h != nil {
		h.RWUnlock(m)
		return
	}
	m.Unlock()
}

func RLock(m *sync.RWMutex) {
	if h := get(); h != nil {
		h.RLock(m)
		return
	}
	m.RLock()
}

func RUnlock(m *sync.RWMutex) {
	if h := get(); h != nil {
		h.RUnlock(m)
		return
	}
	m.RUnlock()
}

func TryLock(m *sync.Mutex) bool {
	if h := get(); h != nil {
		return h.TryLock(m)
	}
	return m.TryLock()
}

func RWTryLock(m *sync.RWMutex) bool {
	if h := get(); h != nil {
		return h.RWTryLock(m)
	}
	return m.TryLock()
}

func TryRLock(m *sync.RWMutex) bool {
	if h := get(); h != nil {
		return h.TryRLock(m)
	}
	return m.TryRLock()
}

func OnceDo(o *sync.Once, f func()) {
	if h := get(); h != nil {
		h.OnceDo(o, f)
		return
	}
	o.Do(f)
}

func CondWait(c *sync.Cond) {
	if h := get(); h != nil {
		h.CondWait(c)
		return
	}
	c.Wait()
}

// CondSignal / CondBroadcast: also when called by a goroutine that is not a task (a
// timer), tasks parked in CondWait have to hear of it.
func CondSignal(c *sync.Cond) {
	if p := current.Load(); p != nil {
		p.h.CondSignal(c)
	}
	c.Signal()
}

func CondBroadcast(c *sync.Cond) {
	if p := current.Load(); p != nil {
		p.h.CondBroadcast(c)
	}
	c.Broadcast()
}

// AfterFunc is time.AfterFunc whose function runs as a task of the simulation.
func AfterFunc(d time.Duration, f func()) *time.Timer {
	p := current.Load()
	if p == nil {
		return time.AfterFunc(d, f)
	}
	return time.AfterFunc(d, func() { runForeign(p, f) })
}

// CtxAfterFunc is context.AfterFunc whose function runs as a task of the simulation.
func CtxAfterFunc(ctx context.Context, f func()) (stop func() bool) {
	p := current.Load()
	if p == nil {
		return context.AfterFunc(ctx, f)
	}
	return context.AfterFunc(ctx, func() { runForeign(p, f) })
}

func runForeign(p *holder, f func()) {
	if cur := current.Load(); cur == p && p.h.GoForeign(f) {
		return
	}
	f() // the run it belonged to is over, or the engine cannot adopt it
}

// Go starts f as a new goroutine (a new simulated task when called by a task).
func Go(f func()) {
	if h := get(); h != nil {
		h.Go(f)
		return
	}
	go f()
}

// Woke: see Hooks.Woke.
func Woke() {
	if h := get(); h != nil {
		h.Woke()
	}
}

func Send[T any](ch chan<- T, v T) {
	ch <- v
	Woke()
}

func Recv[T any](ch <-chan T) T {
	v := <-ch
	Woke()
	return v
}

func Recv2[T any](ch <-chan T) (T, bool) {
	v, ok := <-ch
	Woke()
	return v, ok
}

// SelectPref returns which case of an n-way select is polled first.
func SelectPref(n int) int {
	if h := get(); h != nil {
		return h.SelectPref(n)
	}
	return 0
}

func RandRead(b []byte) (int, error) {
	if h := get(); h != nil {
		return h.RandRead(b)
	}
	return crand.Read(b)
}

// MapSeq iterates over the keys of m. Under the simulator the order is a seeded
// permutation of the (canonically sorted) key set, and keys inserted while the
// iteration runs are visited or not by a seeded coin - exactly the freedom the Go
// specification gives a map range. Callers re-check membership before using a key
// (the rewrite inserts `v, ok := m[k]; if !ok { continue }`).
func MapSeq[M ~map[K]V, K comparable, V any](m M) func(yield func(K) bool) {
	return func(yield func(K) bool) {
		h := get()
		if h == nil {
			for k := range m {
				if !yield(k) {
					return
				}
			}
			return
		}
		visited := make(map[K]bool, len(m))
		for round := 0; ; round++ {
			var keys []K
			for k := range m {
				if !visited[k] {
					keys = append(keys, k)
				}
			}
			if len(keys) == 0 {
				return
			}
			// Entries created during the iteration may or may not be produced.
			if round > 0 && !h.Coin("mapnew") {
				return
			}
			sort.Slice(keys, func(i, j int) bool { return fmt.Sprint(keys[i]) < fmt.Sprint(keys[j]) })
			for _, i := range h.Perm("maporder", len(keys)) {
				k := keys[i]
				visited[k] = true
				if _, ok := m[k]; !ok {
					continue // removed before it was reached: not produced
				}
				if !yield(k) {
					return
				}
			}
		}
	}
}

// PipeReader / PipeWriter wrap the ends of an io.Pipe where they are handed to code
// that only sees an interface: every operation that may have blocked in the pipe is
// followed by Woke, so that a goroutine woken by its peer parks before it goes on.

type pipeReader struct{ r *io.PipeReader }

func (p pipeReader) Read(b []byte) (int, error) {
	n, err := p.r.Read(b)
	Woke()
	return n, err
}
func (p pipeReader) Close() error                   { return p.r.Close() }
func (p pipeReader) CloseWithError(err error) error { return p.r.CloseWithError(err) }

// PipeReader returns r wrapped (an io.ReadCloser with CloseWithError).
func PipeReader(r *io.PipeReader) interface {
	io.ReadCloser
	CloseWithError(error) error
} {
	return pipeReader{r}
}

type pipeWriter struct{ w *io.PipeWriter }

func (p pipeWriter) Write(b []byte) (int, error) {
	n, err := p.w.Write(b)
	Woke()
	return n, err
}
func (p pipeWriter) Close() error                   { return p.w.Close() }
func (p pipeWriter) CloseWithError(err error) error { return p.w.CloseWithError(err) }

// PipeWriter returns w wrapped (an io.WriteCloser with CloseWithError).
func PipeWriter(w *io.PipeWriter) interface {
	io.WriteCloser
	CloseWithError(error) error
} {
	return pipeWriter{w}
}
