#!/bin/bash
# Determinism self-test (DESIGN.md 4.11): for every property, the first N runs are
# executed in fresh processes at GOMAXPROCS 1, 4 and 16 (twice each) and the per-run
# event-log hashes, schedule signatures and trace lengths must be identical.
# usage: selftest.sh <scratch with runnerA.test> [ID...]
S=$1; shift
IDS=${*:-"C01 C02 C03 C04 C05 C06 C07 C08 C10 C11 C12 C13 C14 C15 C16 C18 C19"}
N=${VERIF_SELFTEST_RUNS:-60}
rc=0
for id in $IDS; do
	ref=""
	idrc=0
	for procs in 1 4 16; do
		for rep in 1 2; do
			out=$(GOMAXPROCS=$procs VERIF_ARGS="{\"mode\":\"dettest\",\"property\":\"$id\",\"tier\":\"quick\",\"seed\":${VERIF_SEED:-1},\"max_runs\":$N}" "$S/runnerA.test" -test.run '^TestSim$' -test.timeout 0 2>&1 | grep -v '^PASS\|^ok' )
			h=$(echo "$out" | sha256sum | cut -c1-16)
			if [ -z "$ref" ]; then ref=$h; refout=$out; fi
			if [ "$h" != "$ref" ]; then
				echo "NONDETERMINISM in $id at GOMAXPROCS=$procs rep $rep"
				diff <(echo "$refout") <(echo "$out") | head -10
				rc=1
				idrc=1
			fi
		done
	done
	lines=$(echo "$refout" | wc -l)
	bad=$(echo "$refout" | grep -c HARNESS)
	echo "$id: $lines runs x 6 processes identical=$([ $idrc -eq 0 ] && echo yes || echo NO) hash=$ref harness-errors=$bad"
done
# Stub fidelity: simulated transport vs. a real loopback net/http server (fault-free histories).
tmp=$(mktemp -d /var/tmp/verif-self-XXXXXX)
VERIF_ARGS="{\"mode\":\"driver\",\"property\":\"SELF\",\"tier\":\"quick\",\"seed\":${VERIF_SEED:-1},\"workers\":8,\"budget_s\":${VERIF_SELF_BUDGET_S:-15},\"evidence\":\"$tmp/ev.json\",\"replay_dir\":\"$tmp\",\"known_file\":\"/nonexistent\",\"engine\":\"A\"}" "$S/runnerA.test" -test.run '^TestSim$' -test.timeout 0 | tail -3
[ ${PIPESTATUS[0]} -eq 0 ] || rc=1
rm -rf "$tmp"
exit $rc
