#!/bin/bash
# tools/instrument/selftest.sh: the rewriter on constructs the library does not use today
# (embedded and promoted mutexes, TryLock, generics, nested and labelled selects ...):
# the rewritten module must build and the locking calls must all have been taken over.
set -eu
export GOFLAGS=-mod=mod GOPROXY=off GOSUMDB=off GOTOOLCHAIN=local GOWORK=off
V=$(cd "$(dirname "$0")/../.." && pwd)
(cd "$V/tools/instrument" && go build -o "$V/bin/instrument" .)
S=$(mktemp -d /var/tmp/verif-instr-XXXXXX)
trap 'rm -rf "$S"' EXIT
mkdir -p "$S/repo"
rsync -a --exclude .git "${VERIF_REPO:-/repo}/" "$S/repo/"
mkdir -p "$S/repo/ociregistry/simhook"
cp "$V/sim/simhook/simhook.go" "$S/repo/ociregistry/simhook/"
sed -i -E 's/^go 1\.2[0-2](\.[0-9]+)?$/go 1.23/' "$S/repo/ociregistry/go.mod"
sed -i -E '/^toolchain /d' "$S/repo/ociregistry/go.mod"
cp "$V/tools/instrument/testdata/zz_constructs.go.txt" "$S/repo/ociregistry/ocimem/zz_constructs.go"
"$V/bin/instrument" -dir "$S/repo/ociregistry" -report "$S/rep.json" >"$S/instr.log" 2>&1 || { cat "$S/instr.log"; echo "instrument selftest: FAILED (rewrite)"; exit 1; }
(cd "$S/repo/ociregistry" && go build ./... ) || { echo "instrument selftest: FAILED (the rewritten module does not build)"; exit 1; }
left=$(grep -nE '^\s*(defer )?[a-z.]+\.(Lock|Unlock|RLock|RUnlock|TryLock|TryRLock)\(\)' "$S/repo/ociregistry/ocimem/zz_constructs.go" | grep -v 'l\.Lock\|l\.Unlock\|cond\.L\.' || true)
if [ -n "$left" ]; then echo "locking calls left alone:"; echo "$left"; echo "instrument selftest: FAILED"; exit 1; fi
python3 - "$S/rep.json" <<'PY'
import json,sys
d=json.load(open(sys.argv[1]))
u=[x for x in (d.get('uncontrolled') or []) if 'zz_constructs' in x]
print("reported as outside the simulator's control:"); print("\n".join("  "+x for x in u))
PY
echo "instrument selftest: ok"
