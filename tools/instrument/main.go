// Command instrument rewrites a scratch copy of cuelabs.dev/go/oci/ociregistry so that
// every source of scheduling nondeterminism goes through the simhook package
// (see DESIGN.md section 4.2). It never touches /repo: the check driver copies the
// working tree first and runs this tool on the copy.
//
// The rewrite is typed (go/packages) and mechanical:
//
//	X.Lock()/X.Unlock() on sync.Mutex/RWMutex  -> simhook.Lock(&X) ...
//	go f(a...)                                  -> args evaluated; simhook.Go(func(){ f(a...) })
//	ch <- v / <-ch / v, ok := <-ch              -> simhook.Send / Recv / Recv2 (outside select)
//	select { ... } without default              -> seeded-preference poll, then the original select
//	for k, v := range m (m a map)               -> for k := range simhook.MapSeq(m) { v, ok := m[k]; if !ok {continue}; ... }
//	crypto/rand.Read                            -> simhook.RandRead
//
// With no scheduler installed every simhook entry point is the plain operation, so
// the instrumented module still passes the repository's own tests.
package main

import (
	"encoding/json"
	"flag"
	"fmt"
	"go/ast"
	"go/format"
	"go/token"
	"go/types"
	"os"
	"path/filepath"
	"sort"
	"strconv"
	"strings"

	"golang.org/x/tools/go/ast/astutil"
	"golang.org/x/tools/go/packages"
)

const hookPath = "cuelabs.dev/go/oci/ociregistry/simhook"

type report struct {
	Mode         string         `json:"mode"`
	Files        int            `json:"files_rewritten"`
	Counts       map[string]int `json:"counts"`
	Uncontrolled []string       `json:"uncontrolled"`
}

var rep = report{Mode: "typed", Counts: map[string]int{}}

func count(k string) { rep.Counts[k]++ }
func uncontrolled(fset *token.FileSet, pos token.Pos, what string) {
	p := fset.Position(pos)
	rep.Uncontrolled = append(rep.Uncontrolled, fmt.Sprintf("%s:%d %s", filepath.Base(p.Filename), p.Line, what))
}

func main() {
	dir := flag.String("dir", "", "root of the scratch ociregistry module")
	out := flag.String("report", "", "write a JSON inventory here")
	flag.Parse()
	if *dir == "" {
		fmt.Fprintln(os.Stderr, "usage: instrument -dir <scratch>/ociregistry [-report f]")
		os.Exit(2)
	}
	cfg := &packages.Config{
		Mode: packages.NeedName | packages.NeedFiles | packages.NeedSyntax | packages.NeedTypes |
			packages.NeedTypesInfo | packages.NeedImports | packages.NeedDeps,
		Dir:   *dir,
		Tests: false,
		Env:   append(os.Environ(), "GOWORK=off", "GOFLAGS=-mod=mod", "GOPROXY=off", "GOSUMDB=off"),
	}
	pkgs, err := packages.Load(cfg, "./...")
	if err != nil {
		fmt.Fprintln(os.Stderr, "instrument: load:", err)
		os.Exit(2)
	}
	bad := false
	for _, p := range pkgs {
		for _, e := range p.Errors {
			fmt.Fprintln(os.Stderr, "instrument: package error:", e)
			bad = true
		}
	}
	if bad {
		os.Exit(2)
	}
	sort.Slice(pkgs, func(i, j int) bool { return pkgs[i].PkgPath < pkgs[j].PkgPath })
	for _, p := range pkgs {
		if p.PkgPath == hookPath || strings.HasSuffix(p.PkgPath, "/simhook") {
			continue
		}
		for i, f := range p.Syntax {
			name := p.Fset.Position(f.Pos()).Filename
			_ = i
			if strings.HasSuffix(name, "_test.go") {
				continue
			}
			if rewriteFile(p, f) {
				var sb strings.Builder
				if err := format.Node(&sb, p.Fset, f); err != nil {
					fmt.Fprintf(os.Stderr, "instrument: print %s: %v\n", name, err)
					os.Exit(2)
				}
				if err := os.WriteFile(name, []byte(sb.String()), 0o644); err != nil {
					fmt.Fprintln(os.Stderr, "instrument:", err)
					os.Exit(2)
				}
				rep.Files++
			}
		}
	}
	sort.Strings(rep.Uncontrolled)
	if *out != "" {
		data, _ := json.MarshalIndent(rep, "", " ")
		os.WriteFile(*out, data, 0o644)
	}
}

func sel(name string) ast.Expr {
	return &ast.SelectorExpr{X: ast.NewIdent("simhook"), Sel: ast.NewIdent(name)}
}

func call(name string, args ...ast.Expr) *ast.CallExpr {
	return &ast.CallExpr{Fun: sel(name), Args: args}
}

// syncMethod reports whether c is a call of a sync.Mutex / sync.RWMutex locking
// method and returns the simhook function name and the pointer-valued receiver.
func syncMethod(info *types.Info, c *ast.CallExpr) (string, ast.Expr, bool) {
	if len(c.Args) != 0 {
		return "", nil, false
	}
	se, ok := c.Fun.(*ast.SelectorExpr)
	if !ok {
		return "", nil, false
	}
	s := info.Selections[se]
	if s == nil || s.Kind() != types.MethodVal {
		return "", nil, false
	}
	fn, ok := s.Obj().(*types.Func)
	if !ok || fn.Pkg() == nil || fn.Pkg().Path() != "sync" {
		return "", nil, false
	}
	recv := fn.Type().(*types.Signature).Recv().Type()
	if p, ok := recv.(*types.Pointer); ok {
		recv = p.Elem()
	}
	named, ok := recv.(*types.Named)
	if !ok {
		return "", nil, false
	}
	var hook string
	switch named.Obj().Name() + "." + fn.Name() {
	case "Mutex.Lock":
		hook = "Lock"
	case "Mutex.Unlock":
		hook = "Unlock"
	case "RWMutex.Lock":
		hook = "RWLock"
	case "RWMutex.Unlock":
		hook = "RWUnlock"
	case "RWMutex.RLock":
		hook = "RLock"
	case "RWMutex.RUnlock":
		hook = "RUnlock"
	case "Mutex.TryLock":
		hook = "TryLock"
	case "RWMutex.TryLock":
		hook = "RWTryLock"
	case "RWMutex.TryRLock":
		hook = "TryRLock"
	case "Cond.Wait":
		hook = "CondWait"
	case "Cond.Signal":
		hook = "CondSignal"
	case "Cond.Broadcast":
		hook = "CondBroadcast"
	default:
		return "", nil, false
	}
	// A method promoted through embedding (type T struct{ sync.Mutex }; t.Lock()): spell
	// out the path to the embedded field.
	x := se.X
	t := info.TypeOf(x)
	for _, idx := range s.Index()[:len(s.Index())-1] {
		if p, ok := t.Underlying().(*types.Pointer); ok {
			t = p.Elem()
		}
		st, ok := t.Underlying().(*types.Struct)
		if !ok || idx >= st.NumFields() {
			return "", nil, false
		}
		f := st.Field(idx)
		x = &ast.SelectorExpr{X: x, Sel: ast.NewIdent(f.Name())}
		t = f.Type()
	}
	if _, isPtr := t.Underlying().(*types.Pointer); !isPtr {
		x = &ast.UnaryExpr{Op: token.AND, X: x}
	}
	return hook, x, true
}

// onceDo reports whether c is a call of (*sync.Once).Do and returns the pointer-valued
// receiver.
func onceDo(info *types.Info, c *ast.CallExpr) (ast.Expr, bool) {
	if len(c.Args) != 1 {
		return nil, false
	}
	se, ok := c.Fun.(*ast.SelectorExpr)
	if !ok {
		return nil, false
	}
	s := info.Selections[se]
	if s == nil || s.Kind() != types.MethodVal || len(s.Index()) != 1 {
		return nil, false
	}
	fn, ok := s.Obj().(*types.Func)
	if !ok || fn.Pkg() == nil || fn.Pkg().Path() != "sync" || fn.Name() != "Do" {
		return nil, false
	}
	recv := fn.Type().(*types.Signature).Recv().Type()
	if p, ok := recv.(*types.Pointer); ok {
		recv = p.Elem()
	}
	if named, ok := recv.(*types.Named); !ok || named.Obj().Name() != "Once" {
		return nil, false
	}
	x := se.X
	if _, isPtr := info.TypeOf(x).Underlying().(*types.Pointer); !isPtr {
		x = &ast.UnaryExpr{Op: token.AND, X: x}
	}
	return x, true
}

// pipeHook returns the simhook wrapper for an io.Pipe end, "" for anything else.
func pipeHook(t types.Type) string {
	p, ok := t.(*types.Pointer)
	if !ok {
		return ""
	}
	named, ok := p.Elem().(*types.Named)
	if !ok || named.Obj().Pkg() == nil || named.Obj().Pkg().Path() != "io" {
		return ""
	}
	switch named.Obj().Name() {
	case "PipeReader":
		return "PipeReader"
	case "PipeWriter":
		return "PipeWriter"
	}
	return ""
}

func isMap(info *types.Info, e ast.Expr) bool {
	t := info.TypeOf(e)
	if t == nil {
		return false
	}
	_, ok := t.Underlying().(*types.Map)
	return ok
}

func isChan(info *types.Info, e ast.Expr) bool {
	t := info.TypeOf(e)
	if t == nil {
		return false
	}
	_, ok := t.Underlying().(*types.Chan)
	return ok
}

func rewriteFile(p *packages.Package, f *ast.File) bool {
	info := p.TypesInfo
	fset := p.Fset
	changed := false
	tmp := 0
	fresh := func(prefix string) *ast.Ident {
		tmp++
		return ast.NewIdent("_sh" + prefix + strconv.Itoa(tmp))
	}

	// Communication operations that belong to a select comm clause are handled
	// by the select rewrite, never individually.
	inComm := map[ast.Node]bool{}
	ast.Inspect(f, func(n ast.Node) bool {
		cc, ok := n.(*ast.CommClause)
		if !ok || cc.Comm == nil {
			return true
		}
		inComm[cc.Comm] = true
		ast.Inspect(cc.Comm, func(m ast.Node) bool {
			if u, ok := m.(*ast.UnaryExpr); ok && u.Op == token.ARROW {
				inComm[u] = true
			}
			return true
		})
		return true
	})

	// Pass 1: locks, go statements, channel operations, map ranges, rand.
	astutil.Apply(f, nil, func(c *astutil.Cursor) bool {
		switch n := c.Node().(type) {
		case *ast.ExprStmt:
			if ce, ok := n.X.(*ast.CallExpr); ok {
				if hook, x, ok := syncMethod(info, ce); ok && !strings.Contains(hook, "Try") {
					n.X = call(hook, x)
					count("sync." + hook)
					changed = true
				} else if x, ok := onceDo(info, ce); ok {
					n.X = call("OnceDo", x, ce.Args[0])
					count("sync.Once.Do")
					changed = true
				}
			}
		case *ast.DeferStmt:
			if hook, x, ok := syncMethod(info, n.Call); ok && !strings.Contains(hook, "Try") {
				n.Call = call(hook, x)
				count("sync." + hook)
				changed = true
			}
		case *ast.CallExpr:
			if hook, x, ok := syncMethod(info, n); ok && strings.Contains(hook, "Try") {
				// (the only locking calls that are expressions: they return a result)
				c.Replace(call(hook, x))
				count("sync." + hook)
				changed = true
				return true
			}
			// time.AfterFunc / context.AfterFunc: the function is going to run on a goroutine
			// the runtime starts; under the simulator it has to be a task.
			if se, ok := n.Fun.(*ast.SelectorExpr); ok && se.Sel.Name == "AfterFunc" && len(n.Args) == 2 {
				if fn, ok := info.Uses[se.Sel].(*types.Func); ok && fn.Pkg() != nil {
					switch fn.Pkg().Path() {
					case "time":
						n.Fun = sel("AfterFunc")
						count("time.AfterFunc")
						changed = true
						return true
					case "context":
						n.Fun = sel("CtxAfterFunc")
						count("context.AfterFunc")
						changed = true
						return true
					}
				}
			}
			// An *io.PipeReader / *io.PipeWriter handed to code that sees it as an
			// interface (io.ReadAll, io.Copy, io.MultiWriter, a registry's PushBlob ...) is
			// a blocking primitive the rewrite cannot see into: wrap it so that the
			// goroutine parks as soon as a pipe operation returns.
			if sig, ok := info.TypeOf(n.Fun).(*types.Signature); ok {
				for i, a := range n.Args {
					hook := pipeHook(info.TypeOf(a))
					if hook == "" {
						continue
					}
					var pt types.Type
					switch {
					case sig.Variadic() && i >= sig.Params().Len()-1:
						if sl, ok := sig.Params().At(sig.Params().Len() - 1).Type().(*types.Slice); ok {
							pt = sl.Elem()
						}
					case i < sig.Params().Len():
						pt = sig.Params().At(i).Type()
					}
					if pt == nil || !types.IsInterface(pt) {
						continue
					}
					n.Args[i] = call(hook, a)
					count("io.Pipe end passed as interface")
					changed = true
				}
			}
			// crypto/rand.Read
			if se, ok := n.Fun.(*ast.SelectorExpr); ok {
				if fn, ok := info.Uses[se.Sel].(*types.Func); ok && fn.Pkg() != nil && fn.Pkg().Path() == "crypto/rand" && fn.Name() == "Read" {
					n.Fun = sel("RandRead")
					count("rand.Read")
					changed = true
				}
				if fn, ok := info.Uses[se.Sel].(*types.Func); ok && fn.Pkg() != nil && fn.Pkg().Path() == "time" && fn.Type().(*types.Signature).Recv() == nil &&
					(fn.Name() == "AfterFunc" || fn.Name() == "NewTimer" || fn.Name() == "After" || fn.Name() == "NewTicker" || fn.Name() == "Tick") {
					uncontrolled(fset, n.Pos(), "time."+fn.Name()+" (fake clock fires it, wake-up not a yield point)")
				}
			}
		case *ast.GoStmt:
			c.Replace(rewriteGo(info, n, fresh))
			count("go")
			changed = true
		case *ast.SendStmt:
			if inComm[n] {
				return true
			}
			c.Replace(&ast.ExprStmt{X: call("Send", n.Chan, n.Value)})
			count("chan.send")
			changed = true
		case *ast.UnaryExpr:
			if n.Op != token.ARROW || inComm[n] {
				return true
			}
			two := false
			switch par := c.Parent().(type) {
			case *ast.AssignStmt:
				two = len(par.Lhs) == 2 && len(par.Rhs) == 1
			case *ast.ValueSpec:
				two = len(par.Names) == 2 && len(par.Values) == 1
			}
			if two {
				c.Replace(call("Recv2", n.X))
			} else {
				c.Replace(call("Recv", n.X))
			}
			count("chan.recv")
			changed = true
		case *ast.RangeStmt:
			switch {
			case isChan(info, n.X):
				uncontrolled(fset, n.Pos(), "range over channel")
			case isMap(info, n.X):
				if rewriteMapRange(info, n, fresh) {
					count("map.range")
					changed = true
				} else {
					uncontrolled(fset, n.Pos(), "map range in a form the rewrite does not handle")
				}
			}
		case *ast.SelectorExpr:
			if obj, ok := info.Uses[n.Sel].(*types.TypeName); ok && obj.Pkg() != nil && obj.Pkg().Path() == "sync" {
				switch obj.Name() {
				case "WaitGroup", "Locker":
					uncontrolled(fset, n.Pos(), "sync."+obj.Name())
				}
			}
		}
		return true
	})

	// Pass 2: select statements (post-order, so inner ones first).
	astutil.Apply(f, nil, func(c *astutil.Cursor) bool {
		s, ok := c.Node().(*ast.SelectStmt)
		if !ok {
			return true
		}
		var comms []*ast.CommClause
		hasDefault := false
		for _, st := range s.Body.List {
			cc := st.(*ast.CommClause)
			if cc.Comm == nil {
				hasDefault = true
			}
			comms = append(comms, cc)
		}
		if hasDefault || len(comms) == 0 {
			return true
		}
		if _, isLabeled := c.Parent().(*ast.LabeledStmt); isLabeled {
			uncontrolled(fset, s.Pos(), "labeled select left as is")
			return true
		}
		if len(comms) > 2 {
			uncontrolled(fset, s.Pos(), fmt.Sprintf("select with %d cases: only the preferred case is seeded", len(comms)))
		}
		withWoke := func(cc *ast.CommClause) *ast.CommClause {
			body := append([]ast.Stmt{&ast.ExprStmt{X: call("Woke")}}, cc.Body...)
			return &ast.CommClause{Comm: cc.Comm, Body: body}
		}
		orig := &ast.SelectStmt{Body: &ast.BlockStmt{}}
		for _, cc := range comms {
			orig.Body.List = append(orig.Body.List, withWoke(cc))
		}
		if len(comms) == 1 {
			c.Replace(orig)
			count("select")
			changed = true
			return true
		}
		sw := &ast.SwitchStmt{
			Tag:  call("SelectPref", &ast.BasicLit{Kind: token.INT, Value: strconv.Itoa(len(comms))}),
			Body: &ast.BlockStmt{},
		}
		for i, cc := range comms {
			poll := &ast.SelectStmt{Body: &ast.BlockStmt{List: []ast.Stmt{
				withWoke(cc),
				&ast.CommClause{Comm: nil, Body: []ast.Stmt{orig}},
			}}}
			var list []ast.Expr
			if i < len(comms)-1 {
				list = []ast.Expr{&ast.BasicLit{Kind: token.INT, Value: strconv.Itoa(i)}}
			}
			sw.Body.List = append(sw.Body.List, &ast.CaseClause{List: list, Body: []ast.Stmt{poll}})
		}
		c.Replace(sw)
		count("select")
		changed = true
		return true
	})

	if changed {
		astutil.AddImport(fset, f, hookPath)
		if !astutil.UsesImport(f, "crypto/rand") {
			astutil.DeleteImport(fset, f, "crypto/rand")
		}
	}
	return changed
}

// rewriteGo turns `go f(a, b)` into
//
//	{ _shf := f; _sha, _shb := a, b; simhook.Go(func() { _shf(_sha, _shb) }) }
//
// so that operands are still evaluated by the spawning goroutine.
func rewriteGo(info *types.Info, g *ast.GoStmt, fresh func(string) *ast.Ident) ast.Stmt {
	callx := g.Call
	if fl, ok := callx.Fun.(*ast.FuncLit); ok && len(callx.Args) == 0 {
		return &ast.ExprStmt{X: call("Go", fl)}
	}
	var pre []ast.Stmt
	fun := callx.Fun
	bindFun := true
	switch fx := fun.(type) {
	case *ast.Ident:
		if _, ok := info.Uses[fx].(*types.Func); ok {
			bindFun = false
		}
		if _, ok := info.Uses[fx].(*types.Builtin); ok {
			bindFun = false
		}
	case *ast.SelectorExpr:
		if id, ok := fx.X.(*ast.Ident); ok {
			if _, ok := info.Uses[id].(*types.PkgName); ok {
				bindFun = false
			}
		}
	}
	if bindFun {
		id := fresh("f")
		pre = append(pre, &ast.AssignStmt{Lhs: []ast.Expr{id}, Tok: token.DEFINE, Rhs: []ast.Expr{fun}})
		fun = id
	}
	args := make([]ast.Expr, len(callx.Args))
	for i, a := range callx.Args {
		tv := info.Types[a]
		if tv.Value != nil || tv.IsNil() {
			args[i] = a // constants and nil keep their untyped flexibility
			continue
		}
		id := fresh("a")
		pre = append(pre, &ast.AssignStmt{Lhs: []ast.Expr{id}, Tok: token.DEFINE, Rhs: []ast.Expr{a}})
		args[i] = id
	}
	inner := &ast.CallExpr{Fun: fun, Args: args, Ellipsis: callx.Ellipsis}
	lit := &ast.FuncLit{
		Type: &ast.FuncType{Params: &ast.FieldList{}},
		Body: &ast.BlockStmt{List: []ast.Stmt{&ast.ExprStmt{X: inner}}},
	}
	pre = append(pre, &ast.ExprStmt{X: call("Go", lit)})
	return &ast.BlockStmt{List: pre}
}

// rewriteMapRange rewrites `for k, v := range m {body}` in place.
func rewriteMapRange(info *types.Info, r *ast.RangeStmt, fresh func(string) *ast.Ident) bool {
	if r.Tok != token.DEFINE && !(r.Key == nil && r.Value == nil) {
		return false
	}
	blank := func(e ast.Expr) bool {
		id, ok := e.(*ast.Ident)
		return e == nil || (ok && id.Name == "_")
	}
	m := r.X
	// The map operand is evaluated once by range; bind it if it is not a simple operand.
	switch m.(type) {
	case *ast.Ident, *ast.SelectorExpr:
	default:
		return false
	}
	if blank(r.Key) && blank(r.Value) {
		r.X = call("MapSeq", m)
		return true
	}
	key := r.Key
	if blank(key) {
		key = fresh("k")
		r.Tok = token.DEFINE
	}
	r.Key = key
	if !blank(r.Value) {
		ok := fresh("ok")
		pre := []ast.Stmt{
			&ast.AssignStmt{Lhs: []ast.Expr{r.Value, ok}, Tok: token.DEFINE,
				Rhs: []ast.Expr{&ast.IndexExpr{X: m, Index: key}}},
			&ast.IfStmt{Cond: &ast.UnaryExpr{Op: token.NOT, X: ok},
				Body: &ast.BlockStmt{List: []ast.Stmt{&ast.BranchStmt{Tok: token.CONTINUE}}}},
		}
		r.Body.List = append(pre, r.Body.List...)
	}
	r.Value = nil
	r.X = call("MapSeq", m)
	return true
}
