#!/usr/bin/env python3
"""Writes MANIFEST.json from the table below (one place to edit)."""
import json, os
here = os.path.dirname(os.path.dirname(os.path.abspath(__file__)))

NOTE = ("Trusted base: the harness (reference model refreg, simulated transport simnet, scheduler) and the Go toolchains; "
        "net/http's transport and server are modelled, not run. Sampling, not proof: a clean batch is evidence for the explored seeds.")

checks = {
 "C02": ("exploration", "4.7, 6/C02",
         "Seeded model-based simulation: generated histories of all Interface and BlobWriter operations on a fresh ocimem (both configurations), every return value and the observable state checked step by step against an executable reference registry; content readers fail at seeded byte positions. Hundreds of thousands of distinct histories per quick run; a failure is minimised to a few operations and replayed in a fresh process.",
         "deterministic simulation: seeded history generation with fault-injecting content readers, checked operation-by-operation against a reference model (refreg); choice-trace replay and delta-debugging minimisation"),
 "C04": ("exploration", "4.5, 6/C04",
         "Seeded simulation of upload sessions (content, partition into writes, chunk-size hint, close/resume/abandon/stale-offset pattern) on ocimem directly and through one or two ociclient->ociserver hops over the simulated network, which loses requests and responses, duplicates requests and breaks connections inside request bodies at seeded points. Oracles: committed bytes equal the bytes written, stale offsets are refused with RANGE_INVALID/416 and leave the session unaltered, a wrong digest stores nothing, and after the last fault the upload completes within a bounded number of calls.",
         "deterministic simulation with network fault injection (drop/duplicate/truncate at seeded exchanges, client crash), end-to-end byte oracle, bounded liveness after faults stop; choice-trace replay and minimisation"),
 "C01": ("exploration", "4.5, 4.7, 6/C01",
         "Seeded simulation in two families. F0: model-checked generated histories (all push paths incl. chunked, mount, single-POST, manifest by tag/digest; boundary-biased lengths and range pairs; mismatching pushes) on ocimem directly and behind one/two HTTP hops, ocidebug, select, sub and ociunify (the latter inside the deterministic scheduler): every complete read must return exactly the pushed bytes, hash to the requested digest, match the descriptor size; range reads must be the exact slice. F1: reads through a corrupting middlebox (byte flips, truncation, extension, Content-Length / Docker-Content-Digest / Content-Range rewrites, only wire-feasible): a read that ends cleanly must match its descriptor.",
         "deterministic simulation: seeded histories against a reference model on a stack zoo, plus response-corruption fault injection at the simulated network with a digest/size oracle; choice-trace replay and minimisation"),
 "C03": ("exploration", "6/C03",
         "Differential simulation: the same generated history (reads, pushes, mounts, deletes, listings with early-stopping consumers, disciplined chunked uploads; names containing routing words; manifests on both sides of the client's in-memory threshold) is executed on an ocimem directly and on an identical ocimem behind a recording wrapper and one or two ociclient->ociserver hops (optionally ocidebug) under seeded server options. Per call: same success/failure, same standard error codes (status class for HEAD-based resolves), same descriptor and bytes; and the recording backend must have received only the caller's operations with the caller's arguments.",
         "deterministic simulation: twin-world differential execution of seeded histories through the simulated network with a recording backend monitor; choice-trace replay and minimisation"),
 "C05": ("exploration", "6/C05",
         "Seeded simulation of single listings (Repositories / Tags / Referrers) over seeded registry contents (sizes around page multiples, sibling names sharing a textual prefix) through seeded stacks of sub / select / debug wrappers, 0-2 HTTP hops and ociunify (inside the deterministic scheduler), with seeded client page size, server page limit, Link on/off, start point (absent, equal, between, beyond, URL metacharacters), consumers that stop after k items, and at most one fault (lost request/response, 500, corrupt JSON or truncated body on page j; backend iterator error after item j; failing unify member). Oracle: complete sorted duplicate-free sequence strictly after the start point, or an error; never a silently short list; no consumer call after stop/error; bounded number of requests.",
         "deterministic simulation with transport and backend-iterator fault injection at seeded pages/items; expected listing computed from the wrapper semantics; choice-trace replay and minimisation"),
 "C06": ("exploration", "6/C06",
         "Seeded simulation of request sessions against the real ociserver handler driven in-process: grammar-directed and mutated request lines (all methods, every path template with valid/other/invalid repositories, digests, tags and upload ids, empty segments, repeated slashes, over-long names; n/last/digest/mount/from queries; Range / Content-Range / Content-Type headers; known and unknown body lengths) over a populated ocimem, a fault-injecting backend (error at call k, reader failing mid-stream, iterator failing, writer failing; request body breaking mid-stream) and partially populated Funcs tables. Monitors: no panic; error responses are OCI JSON whose status agrees with the code; success responses carry the mandated headers with Content-Length equal to the body (healthy backend); every backend call has repository/tag/digest accepted by independent validators; every reader/writer obtained from the backend is closed when ServeHTTP returns.",
         "deterministic simulation: seeded request sessions with backend and request-body fault injection; recording/validating backend monitor with open-handle tracking; choice-trace replay and minimisation (the request-shape sweep itself is input generation)"),
 "C07": ("exploration", "6/C07",
         "Seeded simulation in which the injected backend fault is the input: a scripted backend fails the carrier method (each of the 17 Interface entry points, GET-, HEAD-, PUT-, POST-, DELETE- and list-based) with a generated error (15 standard values, custom codes, fmt %w wrapping on either side, HTTP-status wrappers 400..599, messages beginning with code/status prefixes, JSON details), observed through 1, 2 and 3 client->server hops over the simulated network. Oracle: errors.Is against all 15 standard values unchanged (status class for HEAD carriers), status = table or own status, code and detail preserved, Error() text identical after 1, 2 and 3 hops.",
         "deterministic simulation with backend error injection through 1-3 simulated proxy hops; identity/status/detail/fixed-point oracles; choice-trace replay and minimisation"),
 "C18": ("exploration", "6/C18",
         "Seeded simulation of every client operation (18 Interface methods, BlobWriter write/close/commit sequences, both resume modes) against a scripted adversarial peer on the simulated network: a finite script of responses sampled from {status classes incl. redirects and out-of-range codes} x {Location, Range, Content-Range, Docker-Content-Digest, Link, Content-Type, OCI-Chunk-Min-Length, Www-Authenticate each absent / empty / malformed / contradictory / huge} x {body empty / error JSON / right-shaped / wrong-shaped / truncated / garbage / oversized} x {framing: exact, chunked, short, cut, huge Content-Length}, with ListPageSize in {-1,0,1,2,5}; when the script runs out the network fails. Oracle: the operation returns (no panic) and issues no more requests than the script can answer plus one.",
         "deterministic simulation with response fault injection from a scripted adversarial peer; no-panic and bounded-progress oracles; choice-trace replay and minimisation"),
 "C08": ("exploration", "4.3, 4.8, 6/C08",
         "Seeded schedule exploration of 2-16 simulated tasks running pre-generated programs (pushes, manifest pushes with tag moves, deletes, mounts, reads, listings, writes/commits on one shared upload session) over a tiny shared key space against one ocimem, directly and through per-task ociclients into one shared ociserver. The simulator picks the next task at every mutex acquisition of the (mechanically rewritten) library and at every network boundary. Engine A (synctest bubble): every recorded history is checked for linearizability against the reference registry with porcupine, plus directed families (never-dangling tag; commit racing with writes). Engine B: the same scenarios under the Go race detector with raw-pipe task hand-off, so that accesses of strictly serialised tasks are still unordered for the detector.",
         "deterministic simulation: seeded scheduler over instrumented lock sites (testing/synctest), porcupine linearizability against refreg, and the race detector under a controlled serial schedule; choice-trace replay and minimisation"),
 "C12": ("exploration", "6/C12",
         "Seeded simulation (sequential: no schedule dimension, stated in DESIGN.md) of generated histories over all 18 Interface methods and BlobWriter use through ocifilter.AccessChecker / Select with seeded pure policies over (name, access kind), against a recording backend, an unwrapped twin registry and backend listing faults. Oracle: a rejected repository (either one for a mount) never reaches the wrapped registry, never appears in repository listings, and surfaces as the policy's error (Select: NAME_UNKNOWN for read/list/delete, DENIED for write); allowed calls return exactly what the twin returns.",
         "deterministic simulation: seeded histories with a recording backend monitor, twin-registry differential and backend iterator fault injection; choice-trace replay and minimisation"),
 "C13": ("exploration", "6/C13",
         "Seeded simulation (sequential: no schedule dimension, stated in DESIGN.md) of generated histories through ocifilter.Sub(prefix) over a recording backend that also holds sibling repositories sharing a textual prefix. Caller-supplied names include empty, dot, dot-dot, leading/trailing/doubled slashes and upper case; an auth scope travels in the context. Oracle: every backend call names exactly prefix/n (or the call never reaches the backend), nothing outside the prefix is changed, repository listings from any start point are exactly the stripped names (reference model of the restricted registry), and the context scope reaches the backend rewritten for every method.",
         "deterministic simulation: seeded histories with a recording backend monitor and a reference model of the restricted registry; choice-trace replay and minimisation"),
 "C14": ("exploration", "6/C14",
         "Seeded simulation of generated histories through ocifilter.ReadOnly (every mutating call must fail as UNSUPPORTED without reaching the recording backend; the underlying registry is read back against the model afterwards), through ocifilter.Immutable and against ocimem in immutable-tags mode (table of first observations per tag: every later resolve/get agrees in digest and bytes; no delete succeeds through the wrapper; after every step everything a tagged manifest transitively references - walked the way a puller would, by served media type - is retrievable; plus the reference model), and concurrent runs of 2-4 tasks against an immutable-tags ocimem under the deterministic scheduler (engine A) and under the race detector with raw-pipe hand-off (engine B).",
         "deterministic simulation: seeded histories with first-observation and closure invariants and a recording backend; seeded schedules over instrumented lock sites; race detector under a controlled serial schedule; choice-trace replay and minimisation"),
 "C16": ("exploration", "6/C16",
         "Seeded schedule and fault exploration of ociunify's concurrent read policy over two gated fake members inside the deterministic scheduler: each of the five read entry points x member outcomes (ok/fail) x per-member delays x members that return only when their context is cancelled x caller cancellation before/between/after the answers x select preferences (the library's select statements are rewritten so that the choice among ready cases is seeded). Oracle: the result is a successful member's answer, an error only if both failed or the caller cancelled; every reader opened on the member not chosen is closed; the chosen member's context is live until the returned reader is closed and cancelled afterwards; and when the run ends no goroutine is left blocked (the synctest bubble reports any).",
         "deterministic simulation: seeded scheduler and seeded select over instrumented goroutine/channel sites (testing/synctest), gated fake members with reader/context tracking, bubble-level goroutine-leak detection; choice-trace replay and minimisation"),
 "C15": ("exploration", "6/C15",
         "Seeded simulation inside the deterministic scheduler (ociunify's goroutines, channels, io.Pipe and selects are simulator tasks). Reads: generated pairs of member states (each blob/manifest in member 0, member 1, both or neither; tags agreeing, conflicting or one-sided; repositories known to one member) queried under both read policies: digest-addressed content readable iff a member has it, tags resolve iff the members agree or one has it (never a silent pick), listings are the sorted duplicate-free union, and both policies agree. Writes: generated histories (pushes, mounts, deletes, chunked uploads with close/resume) through the unifier over two equal members: the unifier behaves like one registry (reference model), every successful write is visible on both members, and the members stay observably equal; with one member made to fail a write, success must not be reported.",
         "deterministic simulation: seeded scheduler over instrumented goroutine/channel/select sites (testing/synctest), union oracle over generated member states, reference model plus member-equality invariant for writes, member write fault injection; choice-trace replay and minimisation"),
 "C19": ("exploration", "6/C19",
         "Seeded simulation of credential lookup: generated Docker-style config documents (explicit host keys, http/https URL keys with paths, several URL keys for one host, path-like keys; username/password, base64 auth incl. colons, NUL padding, missing colon and garbage; identitytoken, registrytoken; credsStore; credHelpers) with scripted helper behaviours (credentials, token, not found, missing binary, other error) are decoded through the real LoadWithEnv on a temporary file 8 times per document. The map range in the decoder (which extends the map while iterating) is a seeded permutation incl. whether inserted keys are visited, and lookups are issued in seeded orders with repeats. Oracle: a reference precedence function written from the statement, and equality of every lookup across all iteration and lookup orders.",
         "deterministic simulation: the only nondeterminism the property depends on (map iteration order during insertion, lookup order) is put under the seeded choice source via the instrumented range statements; reference precedence oracle; choice-trace replay and minimisation"),
 "C10": ("exploration", "6/C10",
         "Seeded simulation of the real ociauth transport over the simulated network with a fake registry and a fake token server, under the fake clock and the deterministic scheduler (1-4 caller tasks through one shared transport; the transport holds its per-registry lock across token requests, which yield inside the network). Seeded conversations over a small scope lattice with idle gaps of 0-4 s, sub-second gaps, jumps of minutes and token-request latency; token servers that grant all / a subset / refuse wide requests, with or without the OAuth2 POST endpoint, lifetimes absent, 1-3 s or long; all credential configurations. A monitor on every request leaving the transport checks: the bearer token was issued to this transport for that host (or configured), had not expired when sent, covers the required scope when reused / the challenge scope when freshly acquired, is reused without any extra round trip when a cached token with >= 30 s left covers the scope, and token requests ask for challenge U required U desired, textually the challenge's own string when the union adds nothing.",
         "deterministic simulation: fake clock (testing/synctest), seeded scheduler, simulated network with fake registry/token-server peers, traffic monitor with a naive set model of scopes; choice-trace replay and minimisation"),
 "C11": ("exploration", "6/C11",
         "Seeded simulation of the real ociauth transport against two fake registry hosts with distinct canary credentials, their token realms and a foreign host, on the simulated network under the deterministic scheduler (1-3 caller tasks interleaved across hosts) and fake clock. Seeded challenge shapes (Basic, Bearer, both, unknown schemes, malformed, missing realm, quoted realms with commas and escapes), token-server faults (500/403/404, malformed JSON, missing token, no POST endpoint, subset grants), failing configuration lookups, lost requests/responses on chosen exchanges, request bodies with and without GetBody. Every outgoing request is recorded by destination and searched for every host's canaries. Oracle: passwords only to a realm the host named or as Basic to the host after its Basic challenge; refresh tokens only to named realms; tokens only to their own registry; at most two attempts per call; 401 after a fresh token surfaces as 403; the caller's request is unmodified; every request body is closed on every path.",
         "deterministic simulation with fault injection (token-server failures, config lookup failures, transport errors) over fake peers; complete traffic recording with canary-credential confinement monitor; choice-trace replay and minimisation"),
}

na = [
 ("C09", "ociauth.Scope is an immutable value algebra: no schedule, clock, I/O, fault or second party exists for a simulator to control; a check would be input generation in simulator clothing."),
 ("C17", "reference parsing/printing/validity are pure total functions of one string; nothing to schedule or fault."),
 ("C20", "a stateless dispatch table over 2^18 set/unset configurations; exhaustive enumeration is the right tool and is a different technique; no nondeterminism or fault is involved."),
]

all_ids = ["C%02d" % i for i in range(1, 21)]
claimed = set(checks)
na_ids = {p for p, _ in na}
for p in all_ids:
    if p not in claimed and p not in na_ids:
        na.append((p, "not claimed yet: the check for this property is still being built (see DESIGN.md section 6); no verdict is given"))

m = {
 "version": 1,
 "setup_cmd": "./check setup",
 "hooks": {
  "guard": "none (no hook is committed to /repo; every check instruments a scratch copy of the working tree with tools/instrument)",
  "enable": "./check copies /repo's working tree to a scratch directory, adds the simhook package and rewrites sync/go/chan/select/map-range sites with tools/instrument, then builds the harness against that copy",
  "baseline_off_cmd": "cd /repo && for m in cmd/ocisrv internal/ci ociregistry ociregistry/internal/conformance; do (cd $m && go test -vet=off -count=1 ./...) || exit 1; done",
  "source_commits": [],
  "add_only": True,
 },
 "engines": [
  {"name": "sim-B", "path": "sim/", "serves_properties": ["C08", "C14"],
   "kind_free_text": "the same simulator built with the default toolchain and -race: tasks are handed the processor through raw pipe reads/writes in go:norace functions, so the happens-before race detector still sees unsynchronised accesses of serialised tasks"},
  {"name": "sim-A", "path": "sim/", "serves_properties": sorted(claimed),
   "kind_free_text": "deterministic simulator: seeded choice trace, simulated network (simnet), reference model (refreg), testing/synctest bubble scheduler over a mechanically instrumented scratch copy (go1.26.8)"},
 ],
 "checks": [],
 "notes": "Checks rebuild from /repo's working tree on every run. Exit 2 means build/harness trouble, never a verdict. known_findings.json lists repaired defects (fix: commits in /repo) and known findings.",
 "not_applicable": [{"property_id": p, "reason": r} for p, r in sorted(na)],
}
for pid in sorted(checks):
    cat, ref, text, tech = checks[pid]
    m["checks"].append({
     "property_id": pid,
     "quick_cmd": "./check %s quick" % pid,
     "thorough_cmd": "./check %s thorough" % pid,
     "evidence_file": "/verif/evidence/%s.json" % pid,
     "replay_cmd_template": "./check %s --replay {path}" % pid,
     "engine": "sim-A",
     "level_claimed": {"category": cat, "text": text, "design_ref": ref},
     "level_note": NOTE,
     "technique": tech,
    })
json.dump(m, open(os.path.join(here, "MANIFEST.json"), "w"), indent=1)
print("wrote MANIFEST.json with", len(m["checks"]), "checks,", len(m["not_applicable"]), "not applicable")
