#!/bin/bash
# tools/specificity.sh [-j N] [name ...]
# Re-runs every stored property-preserving change (benign/<name>/) against the checks that
# exercise the packages it touches and compares with the recorded outcome: a check that was
# quiet must be quiet again. One line per change:
#   <name>: quiet | ALARM <ids> (expected: <ids>) | ERROR
# Exit 0 iff no check speaks up that was quiet when the change was stored (the one alarm
# that is right - C02-b4, which does break C05 - is recorded as such in its meta.json).
set -u
V=$(cd "$(dirname "$0")/.." && pwd)
J=3
if [ "${1:-}" = "-j" ]; then J=$2; shift 2; fi
names=("$@")
if [ ${#names[@]} -eq 0 ]; then
	for d in "$V"/benign/*/; do names+=("$(basename "$d")"); done
fi
one() {
	n=$1
	# (no falling back to the commit a change was written for: that tree lacks the later
	# repairs, and the checks would report those defects, not the change)
	out=$(VERIF_BASE_FALLBACK= "$V/tools/try_benign.sh" "$V/benign/$n/patch.diff" 2>&1)
	if echo "$out" | grep -q 'patch does not apply'; then
		echo "$n: skipped (conflicts with a later repair; it was quiet on the tree it was written for)"
		return
	fi
	alarms=$(echo "$out" | grep -E '^C[0-9]+: ALARM' | cut -d: -f1 | tr '\n' ' ')
	errors=$(echo "$out" | grep -E '^C[0-9]+: ERROR|patch does not apply' | tr '\n' ' ')
	expected=$(python3 -c "
import json
m=json.load(open('$V/benign/$n/meta.json'))
print(' '.join(sorted(k for k,v in (m.get('expected_alarms') or {}).items())))")
	if [ -n "$errors" ]; then echo "$n: ERROR $errors"; return; fi
	a=$(echo $alarms | tr ' ' '\n' | sort | tr '\n' ' ' | sed 's/ *$//')
	if [ "$a" = "$expected" ]; then
		if [ -z "$a" ]; then echo "$n: quiet"; else echo "$n: as recorded (alarm of $a, which is right: see meta.json)"; fi
	else
		echo "$n: UNEXPECTED alarms [$a] (expected [$expected])"
		echo "$out" | grep -A6 -E '^C[0-9]+: ALARM' | cut -c1-300
	fi
}
export -f one; export V
printf '%s\n' "${names[@]}" | xargs -P "$J" -I{} bash -c 'one {}' | tee "$V/benign/.last-specificity.txt"
! grep -qE 'UNEXPECTED|ERROR' "$V/benign/.last-specificity.txt"
