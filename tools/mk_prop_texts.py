#!/usr/bin/env python3
"""Writes /tmp/prop-<ID>.txt for every property: the only thing (besides
tools/mut-prompt.txt) a mutation-writing sub-agent is given."""
import json, sys
out = sys.argv[1] if len(sys.argv) > 1 else "/tmp"
for l in open(__file__.rsplit("/", 2)[0] + "/properties.jsonl"):
    p = json.loads(l)
    a = p.get("anchors", {})
    with open(f"{out}/prop-{p['id']}.txt", "w") as f:
        f.write(f"Property {p['id']}: {p['title']}\n\nStatement: {p['statement']}\n\n"
                f"Quantified over: {p['quantifier']['text']}\n\n"
                f"Code that is meant to make it hold: {json.dumps(a.get('mechanism', []))}\n\n"
                f"Files: {a.get('files', [])}\n")
