#!/bin/bash
# tools/verify_seeded.sh <dir with patch.diff demo_test.go meta.txt> [pkgdir]
# Confirms a seeded change independently in a scratch worktree of /repo:
#   patch applies, module builds, the whole existing suite passes with it,
#   the demonstration fails with it and passes without it.
set -u
D=$(readlink -f "$1")
PKG=${2:-}
if [ -z "$PKG" ]; then
	name=$(grep -m1 '^package ' "$D/demo_test.go" | awk '{print $2}' | sed 's/_test$//')
	case "$name" in
	ociregistry) PKG=ociregistry ;;
	conformance) PKG=ociregistry/internal/conformance ;;
	ocirequest) PKG=ociregistry/internal/ocirequest ;;
	*) PKG=ociregistry/$name ;;
	esac
fi
W=$(mktemp -d /var/tmp/verif-seeded-XXXXXX)
trap 'git -C /repo worktree remove --force "$W/tree" >/dev/null 2>&1; rm -rf "$W"' EXIT
git -C /repo worktree add -q --detach "$W/tree" HEAD || exit 2
cd "$W/tree"
git apply --check "$D/patch.diff" || { echo "RESULT: patch does not apply to HEAD"; exit 1; }
demo() { cp "$D/demo_test.go" "$W/tree/$PKG/zz_seeded_demo_test.go"; (cd "$W/tree/$PKG" && go test -vet=off -count=1 -run 'Demo|Mut|Seeded|Test' . 2>&1 | tail -15); local rc=${PIPESTATUS[0]}; rm -f "$W/tree/$PKG/zz_seeded_demo_test.go"; return $rc; }
names=$(grep -o '^func Test[A-Za-z0-9_]*' "$D/demo_test.go" | sed 's/func //' | paste -sd'|')
demo() { cp "$D/demo_test.go" "$W/tree/$PKG/zz_seeded_demo_test.go"; out=$(cd "$W/tree/$PKG" && go test -vet=off -count=1 -run "^($names)\$" . 2>&1); rc=$?; rm -f "$W/tree/$PKG/zz_seeded_demo_test.go"; echo "$out" | tail -6; return $rc; }
echo "== clean tree: demo must pass"
demo; c=$?
git apply "$D/patch.diff"
echo "== with change: build + full suite must pass"
(cd ociregistry && go build ./... && go test -vet=off -count=1 ./... 2>&1 | grep -v 'no test files' | grep -v '^ok' | head -20); s1=${PIPESTATUS[0]}
(cd ociregistry && go test -vet=off -count=1 ./... >/dev/null 2>&1); s1=$?
(cd ociregistry/internal/conformance && go test -vet=off -count=1 ./... >/dev/null 2>&1); s2=$?
echo "== with change: demo must fail"
demo; m=$?
echo "RESULT: demo-clean=$([ $c -eq 0 ] && echo pass || echo FAIL) suite-with-change=$([ $s1 -eq 0 ] && [ $s2 -eq 0 ] && echo pass || echo FAIL) demo-with-change=$([ $m -ne 0 ] && echo fails || echo PASSES) pkg=$PKG"
[ $c -eq 0 ] && [ $s1 -eq 0 ] && [ $s2 -eq 0 ] && [ $m -ne 0 ]
