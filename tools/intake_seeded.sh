#!/bin/bash
# tools/intake_seeded.sh <dir with patch.diff demo_test.go meta.txt> <name> <primary ID> [more IDs]
# Confirms the seeded change (verify_seeded.sh), stores it as seeded/<name>/ and records
# which of the named checks detect it (quick tier, default budget).
set -u
V=$(cd "$(dirname "$0")/.." && pwd)
D=$(readlink -f "$1"); NAME=$2; shift 2
ver=$("$V/tools/verify_seeded.sh" "$D" 2>&1 | tail -1)
echo "$NAME verify: $ver"
case "$ver" in *"demo-clean=pass suite-with-change=pass demo-with-change=fails"*) ;; *) echo "$NAME: NOT CONFIRMED, not kept"; exit 1 ;; esac
mkdir -p "$V/seeded/$NAME"
cp "$D/patch.diff" "$D/demo_test.go" "$V/seeded/$NAME/"
cp "$D/meta.txt" "$V/seeded/$NAME/author_notes.txt"
res=$("$V/tools/try_mutant.sh" "$D/patch.diff" "$@" 2>&1)
echo "$res"
python3 - "$V/seeded/$NAME" "$NAME" "$ver" "$res" "$@" <<'PY'
import json,sys,re
d,name,ver,res=sys.argv[1:5]; ids=sys.argv[5:]
notes=open(d+'/author_notes.txt').read()
det={}
for line in res.splitlines():
    m=re.match(r'^(C\d+): (DETECTED|missed|ERROR)\s*(.*)',line)
    if m: det[m.group(1)]={"result":m.group(2).lower(),"detail":m.group(3)[:400]}
meta={"name":name,"breaks_property":ids[0],"what_it_needs":notes[:1500],
 "confirmed":ver,"confirmation_cmd":"tools/verify_seeded.sh seeded/%s (scratch worktree of /repo: patch applies, go build, full suite green with the change, demonstration fails with it and passes without it)"%name,
 "checks_run":"tools/try_mutant.sh seeded/%s/patch.diff %s (quick tier)"%(name," ".join(ids)),"detection":det}
json.dump(meta,open(d+'/meta.json','w'),indent=1)
PY
