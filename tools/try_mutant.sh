#!/bin/bash
# tools/try_mutant.sh <patch.diff> <ID> [ID...]
# Applies a seeded change to a scratch worktree of /repo (never to /repo itself), runs
# the named checks (quick tier) against it with evidence and replays redirected to a
# scratch directory, prints one line per check, and removes the worktree again.
set -u
PATCH=$(readlink -f "$1"); shift
V=$(cd "$(dirname "$0")/.." && pwd)
C=${VERIF_SNAP:-$V}   # (a frozen copy of /verif to run from, while /verif itself is being edited)
W=$(mktemp -d /var/tmp/verif-mutant-XXXXXX)
trap 'git -C /repo worktree remove --force "$W/tree" >/dev/null 2>&1; rm -rf "$W"' EXIT
git -C /repo worktree add -q --detach "$W/tree" HEAD || exit 2
if ! git -C "$W/tree" apply "$PATCH" 2>/dev/null; then
	# (written against an earlier commit; later repairs touched neighbouring lines)
	if git -C "$W/tree" apply --3way "$PATCH" >/dev/null 2>&1 && ! git -C "$W/tree" diff --name-only --diff-filter=U | grep -q .; then
		git -C "$W/tree" reset -q
	else
		echo "patch does not apply"; exit 2
	fi
fi
mkdir -p "$W/ev" "$W/rp"
for id in "$@"; do
	out=$(VERIF_REPO="$W/tree" VERIF_EVIDENCE_DIR="$W/ev" VERIF_REPLAY_DIR="$W/rp" VERIF_BUDGET_S=${VERIF_BUDGET_S:-25} "$C/check" "$id" quick 2>&1)
	rc=$?
	case $rc in
	1) echo "$id: DETECTED  $(echo "$out" | grep -B1 '^VIOLATION' | head -1 | cut -c1-300)" ;;
	0) echo "$id: missed    $(echo "$out" | grep "^$id quick" | head -1 | cut -c1-120)" ;;
	*) echo "$id: ERROR rc=$rc $(echo "$out" | tail -3 | cut -c1-300)" ;;
	esac
done
