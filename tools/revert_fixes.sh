#!/bin/bash
# tools/revert_fixes.sh [-j N] [commit ...]   (no commits named: all; VERIF_SNAP: frozen copy of /verif to run from)
# For every "fixed" entry of known_findings.json: scratch worktree of /repo HEAD with that
# fix commit reverted (git revert --no-commit), then the property's quick check against it.
# The defect must be reported again (exit 1). One line per entry:
#   <property> <commit>: DETECTED | missed | CONFLICT (revert does not apply cleanly) | ERROR
set -u
V=$(cd "$(dirname "$0")/.." && pwd)
J=2
if [ "${1:-}" = "-j" ]; then J=$2; shift 2; fi
ONLY="$*"
C=${VERIF_SNAP:-$V}
one() {
	prop=$1; commit=$2
	W=$(mktemp -d /var/tmp/verif-revert-XXXXXX)
	trap 'git -C /repo worktree remove --force "$W/tree" >/dev/null 2>&1; rm -rf "$W"' EXIT
	git -C /repo worktree add -q --detach "$W/tree" HEAD || { echo "$prop $commit: ERROR worktree"; return; }
	if ! git -C "$W/tree" revert --no-commit "$commit" >/dev/null 2>&1; then
		echo "$prop $commit: CONFLICT"; return
	fi
	mkdir -p "$W/ev" "$W/rp"
	out=$(VERIF_REPO="$W/tree" VERIF_EVIDENCE_DIR="$W/ev" VERIF_REPLAY_DIR="$W/rp" VERIF_BUDGET_S=${VERIF_BUDGET_S:-40} "$C/check" "$prop" quick 2>&1)
	rc=$?
	case $rc in
	1) echo "$prop $commit: DETECTED $(echo "$out" | grep -B1 '^VIOLATION' | head -1 | cut -c1-160)" ;;
	0) echo "$prop $commit: missed" ;;
	*) echo "$prop $commit: ERROR rc=$rc $(echo "$out" | tail -2 | cut -c1-200)" ;;
	esac
}
export -f one; export V C
python3 - "$V/known_findings.json" $ONLY <<'PY' | xargs -P "$J" -L1 bash -c 'one $0 $1' | tee "$V/seeded/.last-revert-fixes.txt"
import json,sys
seen=set()
for f in json.load(open(sys.argv[1]))['findings']:
    if f['status']=='fixed' and (f['property'],f['commit']) not in seen and (len(sys.argv)<3 or f['commit'] in sys.argv[2:]):
        seen.add((f['property'],f['commit'])); print(f['property'], f['commit'])
PY
! grep -qE ': (missed|ERROR)' "$V/seeded/.last-revert-fixes.txt"
