#!/bin/bash
# tools/intake_benign.sh <dir with patch.diff meta.txt> <name> [ID...]
# Confirms that the change applies to /repo's HEAD, builds and passes the existing suite
# (scratch worktree), runs the checks that exercise the touched packages against it
# (tools/try_benign.sh) and stores patch, author's argument and outcome as benign/<name>/.
set -u
export GOPROXY=off GOSUMDB=off
V=$(cd "$(dirname "$0")/.." && pwd)
D=$(readlink -f "$1"); NAME=$2; shift 2
W=$(mktemp -d /var/tmp/verif-benv-XXXXXX)
trap 'git -C /repo worktree remove --force "$W/tree" >/dev/null 2>&1; rm -rf "$W"' EXIT
git -C /repo worktree add -q --detach "$W/tree" HEAD || exit 2
if ! git -C "$W/tree" apply "$D/patch.diff" 2>/dev/null; then
	[ -n "${VERIF_BASE_FALLBACK:-}" ] || { echo "$NAME: patch does not apply"; exit 1; }
	git -C "$W/tree" checkout -q --detach "$VERIF_BASE_FALLBACK" && git -C "$W/tree" apply "$D/patch.diff" || { echo "$NAME: patch does not apply"; exit 1; }
fi
(cd "$W/tree/ociregistry" && env -u GOFLAGS go build ./... && env -u GOFLAGS go test -vet=off -count=1 ./... >"$W/s1.log" 2>&1); s1=$?
(cd "$W/tree/ociregistry/internal/conformance" && env -u GOFLAGS go test -vet=off -count=1 ./... >"$W/s2.log" 2>&1); s2=$?
if [ $s1 -ne 0 ] || [ $s2 -ne 0 ]; then echo "$NAME: existing suite fails with the change, not kept"; grep -v '^ok\|no test files' "$W/s1.log" "$W/s2.log" | head; exit 1; fi
git -C /repo worktree remove --force "$W/tree" >/dev/null 2>&1
res=$(KEEP_REPLAYS="$V/benign/$NAME/replays" "$V/tools/try_benign.sh" "$D/patch.diff" "$@" 2>&1); rc=$?
mkdir -p "$V/benign/$NAME"
cp "$D/patch.diff" "$V/benign/$NAME/"
cp "$D/meta.txt" "$V/benign/$NAME/author_notes.txt"
echo "$res" >"$V/benign/$NAME/outcome.txt"
echo "== $NAME (rc=$rc)"; echo "$res" | cut -c1-400
python3 - "$V/benign/$NAME" "$NAME" "$rc" <<'PY'
import json,sys,re
d,name,rc=sys.argv[1:4]
out=open(d+'/outcome.txt').read()
res={}
for line in out.splitlines():
    m=re.match(r'^(C\d+): (quiet|ALARM|ERROR)',line)
    if m: res[m.group(1)]=m.group(2).lower()
json.dump({"name":name,"kind":"property-preserving change (author's argument in author_notes.txt)",
 "confirmed":"applies to /repo HEAD, builds, existing suite passes with it (tools/intake_benign.sh)",
 "checks_run":"tools/try_benign.sh benign/%s/patch.diff (quick tier, short budget)"%name,
 "outcome":res,"all_quiet":rc=="0"},open(d+'/meta.json','w'),indent=1)
PY
exit $rc
