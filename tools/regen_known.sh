#!/bin/bash
# tools/regen_known.sh <property> : regenerates the reproducers under known/ for the listed
# known findings of one property (needed when the scenario's draws change, since a replay
# file is a choice trace). For each entry: a scratch copy of /verif with that entry taken
# out of known_findings.json, the quick check run from it with replays redirected, and the
# replay it reports stored under the entry's reproducer name. /verif's known_findings.json
# is not touched.
set -u
V=$(cd "$(dirname "$0")/.." && pwd)
P=$1
S=$(mktemp -d /var/tmp/verif-regen-XXXXXX)
trap 'rm -rf "$S"' EXIT
rsync -a --exclude .git --exclude evidence --exclude replays --exclude benign --exclude seeded "$V/" "$S/v/"
python3 - "$V" "$P" <<'PY' >"$S/list"
import json,sys
d=json.load(open(sys.argv[1]+'/known_findings.json'))
for i,f in enumerate(d['findings']):
    if f.get('status')=='known' and f['property']==sys.argv[2] and f.get('replay'):
        print(i,f['replay'])
PY
rc=0
while read -r idx rep; do
	python3 - "$V" "$S/v" "$idx" <<'PY'
import json,sys
d=json.load(open(sys.argv[1]+'/known_findings.json'))
del d['findings'][int(sys.argv[3])]
json.dump(d,open(sys.argv[2]+'/known_findings.json','w'),indent=1)
PY
	rm -rf "$S/rp" "$S/ev"; mkdir -p "$S/rp" "$S/ev"
	out=$(VERIF_SCRATCH="$S/scratch" VERIF_EVIDENCE_DIR="$S/ev" VERIF_REPLAY_DIR="$S/rp" VERIF_BUDGET_S=${VERIF_BUDGET_S:-20} "$S/v/check" "$P" quick 2>&1)
	f=$(echo "$out" | sed -n 's/^VIOLATION property=[A-Z0-9]* replay=//p' | head -1)
	if [ -n "$f" ] && [ -f "$f" ]; then
		cp "$f" "$V/$rep"; echo "$rep: regenerated ($(echo "$out" | grep -B1 '^VIOLATION' | head -1 | cut -c1-160))"
	else
		echo "$rep: NOT reproduced"; rc=1
	fi
done <"$S/list"
exit $rc
