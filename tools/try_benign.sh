#!/bin/bash
# tools/try_benign.sh <patch.diff> [ID...]
# Applies a property-preserving change to a scratch worktree of /repo (never to /repo
# itself) and runs the checks that exercise the touched packages (or the named ones),
# quick tier, evidence and replays redirected. Any VIOLATION here is a false alarm of
# the machinery (or shows that the change was not property-preserving after all) and
# is printed with its detail; exit status 0 = all quiet, 1 = some check spoke up.
set -u
PATCH=$(readlink -f "$1"); shift
V=$(cd "$(dirname "$0")/.." && pwd)
C=${VERIF_SNAP:-$V}   # (a frozen copy of /verif to run from, while /verif itself is being edited)
ids="$*"
if [ -z "$ids" ]; then
	f=$(grep '^+++ b/' "$PATCH" | sed 's#^+++ b/##')
	s=""
	for p in $f; do
		case $p in
		ociregistry/ocimem/*) s="$s C01 C02 C03 C04 C05 C06 C08 C14 C15" ;;
		ociregistry/ociclient/*) s="$s C01 C03 C04 C05 C07 C08 C18" ;;
		ociregistry/ociserver/*) s="$s C01 C03 C04 C05 C06 C07 C08" ;;
		ociregistry/ociauth/*) s="$s C10 C11 C19" ;;
		ociregistry/ocifilter/*) s="$s C05 C12 C13 C14" ;;
		ociregistry/ociunify/*) s="$s C15 C16 C04 C05" ;;
		ociregistry/ocidebug/*) s="$s C03 C04" ;;
		ociregistry/internal/ocirequest/*) s="$s C06 C03 C05 C18" ;;
		ociregistry/*) s="$s C01 C02 C03 C05 C06 C07 C12 C15" ;;
		esac
	done
	ids=$(echo $s | tr ' ' '\n' | sort -u | tr '\n' ' ')
fi
W=$(mktemp -d /var/tmp/verif-benign-XXXXXX)
trap 'git -C /repo worktree remove --force "$W/tree" >/dev/null 2>&1; rm -rf "$W"' EXIT
git -C /repo worktree add -q --detach "$W/tree" HEAD || exit 2
if git -C "$W/tree" apply "$PATCH" 2>/dev/null; then
	:
elif git -C "$W/tree" apply --3way "$PATCH" >/dev/null 2>&1 && ! git -C "$W/tree" diff --name-only --diff-filter=U | grep -q .; then
	# (written against an earlier commit; a later repair touched neighbouring lines and
	# the two merge cleanly)
	git -C "$W/tree" reset -q
	# (a merge without textual conflicts can still leave a tree that does not compile)
	if ! (cd "$W/tree/ociregistry" && env -u GOFLAGS GOPROXY=off GOSUMDB=off go build ./... >/dev/null 2>&1); then
		echo "patch does not apply"; exit 2
	fi
	echo "note: merged into HEAD (three-way)"
else
	git -C "$W/tree" checkout -q -f HEAD 2>/dev/null; git -C "$W/tree" reset -q --hard HEAD
	# (written against an earlier commit, before a later repair touched the same lines)
	[ -n "${VERIF_BASE_FALLBACK:-}" ] || { echo "patch does not apply"; exit 2; }
	applied=""
	for base in $VERIF_BASE_FALLBACK; do
		git -C "$W/tree" checkout -q --detach "$base" && git -C "$W/tree" apply "$PATCH" 2>/dev/null && { applied=$base; break; }
		git -C "$W/tree" checkout -q -- . 2>/dev/null
	done
	[ -n "$applied" ] || { echo "patch does not apply"; exit 2; }
	echo "note: applied to $applied, not to HEAD"
fi
mkdir -p "$W/ev" "$W/rp"
bad=0
for id in $ids; do
	out=$(VERIF_SCRATCH="$W/scratch" VERIF_REPO="$W/tree" VERIF_EVIDENCE_DIR="$W/ev" VERIF_REPLAY_DIR="$W/rp" VERIF_BUDGET_S=${VERIF_BUDGET_S:-15} "$C/check" "$id" quick 2>&1)
	rc=$?
	case $rc in
	0) echo "$id: quiet" ;;
	1) bad=1; echo "$id: ALARM"; echo "$out" | grep -v '^WARN\|faults fired\|^KNOWN' | tail -25 | cut -c1-600
	   if [ -n "${KEEP_REPLAYS:-}" ]; then mkdir -p "$KEEP_REPLAYS"; cp "$W"/rp/*.json "$KEEP_REPLAYS"/ 2>/dev/null; fi ;;
	*) bad=1; echo "$id: ERROR rc=$rc"; echo "$out" | tail -15 | cut -c1-400 ;;
	esac
done
exit $bad
