#!/usr/bin/env python3
"""Merge the evidence of engine B (race detector under a serial schedule) into the
property's evidence file written by engine A."""
import json, sys
a_path, b_path = sys.argv[1], sys.argv[2]
a = json.load(open(a_path))
b = json.load(open(b_path))
ca, cb = a["coverage"], b["coverage"]
ca["race_engine"] = {k: cb.get(k) for k in ("evaluations", "distinct_nontrivial", "operations", "scheduler_steps",
    "distinct_interleavings", "probes", "runs_per_scenario", "toolchain", "runs_per_hour", "overrun_runs_discarded", "unschedulable_scenarios", "workers_retired_early", "workers_restarted")}
ca["evaluations"] = ca.get("evaluations", 0) + cb.get("evaluations", 0)
a["wall_s"] = a.get("wall_s", 0) + b.get("wall_s", 0)
a["violations"] = a.get("violations", 0) + b.get("violations", 0)
json.dump(a, open(a_path, "w"), indent=1)
