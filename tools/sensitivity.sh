#!/bin/bash
# tools/sensitivity.sh [-j N] [name ...]
# Re-runs every stored seeded change (or the named ones) against the check(s) recorded
# as detecting it in its meta.json (quick tier) and prints one line per change:
#   <name> <ID>: DETECTED|missed|ERROR
# Exit 0 iff every recorded detection still holds. Uses scratch worktrees of /repo only.
set -u
V=$(cd "$(dirname "$0")/.." && pwd)
J=3
if [ "${1:-}" = "-j" ]; then J=$2; shift 2; fi
names=("$@")
if [ ${#names[@]} -eq 0 ]; then
	for d in "$V"/seeded/*/; do
		grep -q '"superseded"\|"not_claimed"' "$d/meta.json" 2>/dev/null && continue
		names+=("$(basename "$d")")
	done
fi
one() {
	n=$1
	ids=$(python3 -c "
import json,sys
m=json.load(open('$V/seeded/$n/meta.json'))
det=m.get('detection',{})
ids=[k for k,v in det.items() if v.get('result')=='detected']
print(' '.join(ids) if ids else m.get('breaks_property',''))")
	out=$("$V/tools/try_mutant.sh" "$V/seeded/$n/patch.diff" $ids 2>&1)
	if echo "$out" | grep -q 'patch does not apply'; then
		# (never silent: a change that later repairs have overtaken textually is said so)
		echo "$n -: not applicable to the tree as it stands (the patch conflicts with a later repair; what is recorded for it was obtained on the tree it was written for)"
		return
	fi
	echo "$out" | grep -E '^C[0-9]+: ' | sed "s/^/$n /" | cut -c1-200
}
export -f one; export V
printf '%s\n' "${names[@]}" | xargs -P "$J" -I{} bash -c 'one {}' | tee "$V/seeded/.last-sensitivity.txt"
! grep -qE ': (missed|ERROR)' "$V/seeded/.last-sensitivity.txt"
